"""Cooperative baton scheduler over sys.settrace line events (DESIGN 3/C15).  Exactly one thread runs;
at the traced line numbers listed in `switches` (global event counter) the running thread hands the baton
to the next unfinished thread.  The schedule is data, so interleavings are replayable and shrinkable."""
import sys, threading


class Baton(object):
    def __init__(self, n, switches, files=('pack.py', 'entity.py', 'sigver.py', 'httpbase.py', 'asymmetric.py'), timeout=5.0):
        self.cv = threading.Condition()
        self.cur = 0
        self.n = n
        self.switches = set(switches)
        self.count = 0
        self.done = set()
        self.inconclusive = False
        self.files = files
        self.timeout = timeout
        self.switched = 0

    def _tracer(self, me):
        def local(frame, event, arg):
            if event == 'line':
                self._point(me)
            return local

        def glob(frame, event, arg):
            fn = frame.f_code.co_filename
            if '/saml2_tophat/' in fn and fn.rsplit('/', 1)[-1] in self.files:
                return local
            return None
        return glob

    def _point(self, me):
        with self.cv:
            self.count += 1
            if self.count in self.switches:
                nxt = [i for i in range(self.n) if i != me and i not in self.done]
                if nxt:
                    self.cur = nxt[(self.count) % len(nxt)]
                    self.switched += 1
                    self.cv.notify_all()
            while self.cur != me:
                if not self.cv.wait(timeout=self.timeout):
                    self.inconclusive = True
                    self.cur = me

    def _run(self, me, fn, errors):
        with self.cv:
            while self.cur != me:
                if not self.cv.wait(timeout=self.timeout):
                    self.inconclusive = True
                    self.cur = me
        sys.settrace(self._tracer(me))
        try:
            fn()
        except BaseException as e:      # reported by the caller
            errors[me] = e
        finally:
            sys.settrace(None)
            with self.cv:
                self.done.add(me)
                nxt = [i for i in range(self.n) if i not in self.done]
                if nxt:
                    self.cur = nxt[0]
                self.cv.notify_all()

    def run(self, fns):
        errors = {}
        ts = [threading.Thread(target=self._run, args=(i, f, errors)) for i, f in enumerate(fns)]
        for t in ts:
            t.start()
        for t in ts:
            t.join(60)
        if any(t.is_alive() for t in ts):
            self.inconclusive = True
        return errors
