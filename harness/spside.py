"""Shared SP-side plumbing: cached service providers per option setting, frozen clock, verdict classification."""
from harness import world, build, clock

IDP = 'https://idp.verif.example/idp'
SP = 'https://sp.verif.example/sp'
ACS_POST = 'https://sp.verif.example/acs/post'
ACS_REDIRECT = 'https://sp.verif.example/acs/redirect'
NOW = 1700000000
_sps = {}


def idp_metadata(keys=(('signing', 1),), entityid=IDP, extra_entities=()):
    ents = [{'entityid': entityid, 'idp': {'keys': list(keys)}}] + list(extra_entities)
    return build.entities_xml(ents)


def sp_for(opts=None, md=None, cache_key=None, config_class='sp'):
    """opts: dict of SP options merged over world.DEFAULT_SP"""
    world.install_inprocess_tool()
    clock.install()
    opts = opts or {}
    key = (cache_key or repr(sorted((k, repr(v)) for k, v in opts.items())) + ('<none>' if md == '' else (md or ''))) + '|' + config_class
    if key not in _sps:
        spec = dict(world.DEFAULT_SP)
        spec.update(opts)
        # md == '' : an SP without any metadata source at all
        _sps[key] = world.make_sp(world.sp_conf(spec, [] if md == '' else [md or idp_metadata()]), config_class)
        clock.install()
    return _sps[key]


def deliver(sp, doc, binding=None, outstanding=None, **kw):
    """returns ('accept', AuthnResponse) | ('reject', exception class name, message)"""
    binding = binding or world.POST
    enc = build.b64(doc)
    if binding == world.REDIRECT:
        # what the browser hands over from the query string: DEFLATE + base64
        import zlib, base64
        enc = base64.b64encode(zlib.compress(doc.encode('utf-8'))[2:-4]).decode('ascii')
    try:
        resp = sp.parse_authn_request_response(enc, binding, dict(outstanding if outstanding is not None else {'id-req-1': '/'}), **kw)
    except Exception as e:
        return ('reject', type(e).__name__, str(e)[:200])
    if resp is None:
        return ('reject', 'None', '')
    return ('accept', resp)


def deliver_attr(sp, doc):
    """the other response entry point of an SP: an answer to an AttributeQuery, SOAP-enveloped (unsigned documents only: the SOAP decoder re-serialises the body)"""
    try:
        resp = sp.parse_attribute_query_response(build.soap_envelope(doc), world.SOAP)
    except Exception as e:
        return ('reject', type(e).__name__, str(e)[:200])
    if resp is None:
        return ('reject', 'None', '')
    return ('accept', resp)


def identity_of(resp):
    """what the application reads"""
    nid = resp.name_id
    return {'name_id': None if nid is None else nid.text, 'ava': dict((k, list(v)) for k, v in (resp.ava or {}).items())}
