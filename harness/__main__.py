import sys
from harness.runner import main
sys.exit(main())
