"""Generic runner for the property checks (DESIGN.md 2.6).

A check module (checks/cNN_*.py) exposes

    PROPERTY = 'C19'
    LEVEL    = 'exploration'
    RULE     = 'how cases are generated and what makes one non-trivial'
    ASSUMPTIONS = [...]
    def parts(tier): -> list[Part]
    def known_match(part_name, case, violation) -> finding key or None      (optional)
    def setup(tier): -> None       (optional, runs once in every worker)

A Part is either generated (Hypothesis strategy producing a JSON-able case) or enumerated (a
deterministic list of JSON-able cases).  `run(case)` executes one case against /repo's working tree,
returns (label, nontrivial) and raises Violation when the oracle fails.  Everything random comes from
Hypothesis, seeded from VERIF_SEED; a failing case is shrunk by Hypothesis (generated parts) and written
as a replay file that `--replay` re-executes without Hypothesis.

Exit codes: 0 held; 1 violation (line `VIOLATION property=<id> replay=<path>`); 2 harness problem.
"""
import os, sys, json, time, hashlib, traceback, importlib, argparse, tempfile, shutil, collections, zlib

VERIF = os.path.dirname(os.path.dirname(os.path.abspath(__file__)))
REPO = os.environ.get('VERIF_REPO', '/repo')
NPROC = int(os.environ.get('VERIF_NPROC', '16'))


class Violation(Exception):
    """Oracle failure for one case.  bucket = oracle clause / decision point (root-cause key)."""
    def __init__(self, bucket, msg, detail=None):
        Exception.__init__(self, '%s: %s' % (bucket, msg))
        self.bucket = bucket
        self.msg = msg
        self.detail = detail


class Inconclusive(Exception):
    """The harness could not establish its own preconditions (exit 2, never a violation)."""


class Part(object):
    def __init__(self, name, run, strategy=None, cases=None, examples=None, mandatory=(), max_shards=NPROC,
                 exhaustive=False, weight=1, setup=None, distinct_by_construction=False):
        self.name = name
        self.run = run
        self.strategy = strategy      # callable -> hypothesis strategy   (generated part)
        self.cases = cases            # callable -> list of cases          (enumerated part)
        self.examples = examples      # total number of hypothesis examples over all shards
        self.mandatory = tuple(mandatory)
        self.max_shards = max_shards
        self.exhaustive = exhaustive
        self.setup = setup
        # enumerated parts whose cases are pairwise different by construction: count, do not hash
        self.distinct_by_construction = distinct_by_construction


def jdump(x):
    return json.dumps(x, sort_keys=True, ensure_ascii=True, default=repr)


def case_hash(part, case):
    return hashlib.sha1((part + '\0' + jdump(case)).encode()).hexdigest()[:16]


def load_findings():
    p = os.path.join(VERIF, 'KNOWN_FINDINGS.json')
    if not os.path.exists(p):
        return []
    with open(p) as f:
        return json.load(f)['findings']


def prepare_process():
    """Environment every check process runs in: repo sources first on sys.path, private cwd."""
    src = os.path.join(REPO, 'src')
    if src not in sys.path:
        sys.path.insert(0, src)
    for p in (VERIF, os.path.join(VERIF, 'tools', 'xmlsec')):
        if p not in sys.path:
            sys.path.insert(0, p)
    deps = os.path.join(VERIF, '.deps')
    if os.path.isdir(deps) and deps not in sys.path:
        sys.path.append(deps)
    os.environ['TZ'] = 'UTC'
    try:
        time.tzset()
    except Exception:
        pass
    sys.dont_write_bytecode = True
    import warnings, logging
    warnings.simplefilter('ignore')
    logging.disable(logging.CRITICAL)


def _shard_seed(seed, part, idx):
    return zlib.crc32(('%d/%s/%d' % (seed, part, idx)).encode()) + seed * 1000003


def _worker(args):
    modname, tier, seed, part_name, idx, nshards, open_keys = args
    prepare_process()
    scratch = tempfile.mkdtemp(prefix='verif-%s-' % part_name)
    old = os.getcwd()
    os.chdir(scratch)
    out = {'part': part_name, 'idx': idx, 'evaluations': 0, 'classes': {}, 'hashes': {}, 'samples': [],
           'nontrivial_count': 0, 'violations': [], 'excluded': {}, 'excluded_samples': {}, 'error': None, 'notes': {}}
    try:
        mod = importlib.import_module(modname)
        if hasattr(mod, 'setup'):
            mod.setup(tier)
        part = [p for p in mod.parts(tier) if p.name == part_name][0]
        if part.setup:
            part.setup()
        known = getattr(mod, 'known_match', None)

        def one(case):
            out['evaluations'] += 1
            try:
                res = part.run(case)
            except Violation as v:
                key = known(part_name, case, v) if known else None
                if key is not None and key in open_keys:
                    out['excluded'][key] = out['excluded'].get(key, 0) + 1
                    out['excluded_samples'].setdefault(key, {'case': case, 'bucket': v.bucket, 'msg': v.msg[:300]})
                    return None
                v.case = case
                v.known_key = key
                raise
            label, nontrivial = res if res is not None else ('case', True)
            if isinstance(label, (list, tuple)):
                label = '|'.join(str(x) for x in label)
            out['classes'][label] = out['classes'].get(label, 0) + 1
            if nontrivial and part.distinct_by_construction:
                out['nontrivial_count'] += 1
            elif nontrivial:
                h = case_hash(part_name, case)
                if h not in out['hashes']:
                    out['hashes'][h] = label
            if len(out['samples']) < 3 and (nontrivial or not out['samples']):
                out['samples'].append({'part': part_name, 'label': label, 'case': case})
            return None

        if part.cases is not None:
            cases = part.cases()
            buckets = {}
            import itertools
            for case in itertools.islice(iter(cases), idx, None, nshards):
                try:
                    one(case)
                except Violation as v:
                    b = buckets.setdefault(v.bucket, [])
                    if len(b) < 50:
                        b.append((len(jdump(case)), jdump(case), v))
            for bname, lst in buckets.items():
                lst.sort(key=lambda t: (t[0], t[1]))
                size, cj, v = lst[0]
                out['violations'].append({'bucket': bname, 'msg': v.msg, 'detail': v.detail, 'case': json.loads(cj),
                                          'count_in_shard': len(lst), 'shrunk': 'smallest of enumerated failures'})
        else:
            import hypothesis
            from hypothesis import given, settings, HealthCheck, Phase
            n = max(1, part.examples // nshards)
            phases = [Phase.explicit, Phase.generate, Phase.shrink]
            st = part.strategy()
            first = {}

            @hypothesis.seed(_shard_seed(seed, part_name, idx))
            @settings(max_examples=n, database=None, deadline=None, derandomize=False, report_multiple_bugs=False,
                      suppress_health_check=[HealthCheck.too_slow, HealthCheck.data_too_large,
                                             HealthCheck.large_base_example, HealthCheck.filter_too_much],
                      phases=phases, print_blob=False)
            @given(st)
            def test(case):
                try:
                    one(case)
                except Violation as v:
                    first.setdefault('v', v)
                    raise
            try:
                test()
            except Violation as v:
                out['violations'].append({'bucket': v.bucket, 'msg': v.msg, 'detail': v.detail, 'case': v.case,
                                          'shrunk': 'hypothesis'})
            except BaseException as e:
                if 'v' in first:      # e.g. Flaky raised while shrinking a genuine failure
                    v = first['v']
                    out['violations'].append({'bucket': v.bucket, 'msg': v.msg, 'detail': v.detail, 'case': v.case,
                                              'shrunk': 'not shrunk (%s)' % type(e).__name__})
                else:
                    raise
        if hasattr(mod, 'worker_notes'):
            out['notes'] = mod.worker_notes()
    except Inconclusive as e:
        out['error'] = 'inconclusive: %s' % e
    except BaseException as e:
        out['error'] = 'harness error: %s\n%s' % (repr(e), traceback.format_exc()[-3000:])
    finally:
        os.chdir(old)
        shutil.rmtree(scratch, ignore_errors=True)
    return out


def run_check(modname, tier, seed, only_part=None):
    t0 = time.time()
    prepare_process()
    mod = importlib.import_module(modname)
    pid = mod.PROPERTY
    findings = [f for f in load_findings() if f['property'] == pid]
    open_keys = set(f['key'] for f in findings if f.get('status') == 'open')
    parts = mod.parts(tier)
    if only_part:
        parts = [p for p in parts if p.name == only_part]
    tasks = []
    for p in parts:
        if p.cases is not None:
            ncases = len(p.cases())
            ns = max(1, min(p.max_shards, NPROC, ncases))
        else:
            ns = max(1, min(p.max_shards, NPROC, p.examples // 5 or 1))
        for i in range(ns):
            tasks.append((modname, tier, seed, p.name, i, ns, open_keys))
    import multiprocessing
    ctx = multiprocessing.get_context('fork')
    if NPROC > 1 and len(tasks) > 1:
        with ctx.Pool(min(NPROC, len(tasks)), maxtasksperchild=1) as pool:
            results = pool.map(_worker, tasks, chunksize=1)
    else:
        results = [_worker(t) for t in tasks]

    evaluations = 0
    classes = collections.Counter()
    hashes = {}
    samples = []
    violations = []
    excluded = collections.Counter()
    excluded_samples = {}
    errors = []
    notes = {}
    per_part = collections.OrderedDict()
    for r in results:
        evaluations += r['evaluations']
        pp = per_part.setdefault(r['part'], {'evaluations': 0, 'distinct_nontrivial': 0, 'classes': collections.Counter()})
        pp['evaluations'] += r['evaluations']
        for k, v in r['classes'].items():
            classes[r['part'] + ':' + k] += v
            pp['classes'][k] += v
        for h, l in r['hashes'].items():
            hashes[h] = (r['part'], l)
        if r['samples'] and len([s for s in samples if s['part'] == r['part']]) < 3:
            samples.extend(r['samples'][:1])
        violations.extend(dict(v, part=r['part']) for v in r['violations'])
        for k, v in r['excluded'].items():
            excluded[k] += v
        for k, v in r['excluded_samples'].items():
            excluded_samples.setdefault(k, v)
        if r['error']:
            errors.append('%s[%d]: %s' % (r['part'], r['idx'], r['error']))
        for k, v in (r.get('notes') or {}).items():
            if isinstance(v, (int, float)):
                notes[k] = notes.get(k, 0) + v
            else:
                notes.setdefault(k, v)
    for part, lab in hashes.values():
        per_part[part]['distinct_nontrivial'] += 1
    counted = 0
    for r in results:
        counted += r['nontrivial_count']
        per_part[r['part']]['distinct_nontrivial'] += r['nontrivial_count']

    missing = []
    for p in parts:
        have = per_part.get(p.name, {}).get('classes', {})
        for m in p.mandatory:
            if not any(m in k.split('|') or m == k for k in have):
                missing.append('%s:%s' % (p.name, m))

    # one violation per (part, bucket), smallest case first
    byb = {}
    for v in violations:
        k = (v['part'], v['bucket'])
        if k not in byb or len(jdump(v['case'])) < len(jdump(byb[k]['case'])):
            byb[k] = v
    os.makedirs(os.path.join(VERIF, 'replays'), exist_ok=True)
    if not os.environ.get('VERIF_SENS'):
        for fn in os.listdir(os.path.join(VERIF, 'replays')):
            if fn.startswith(pid + '_') and (not only_part or fn.startswith('%s_%s_' % (pid, only_part))):
                os.unlink(os.path.join(VERIF, 'replays', fn))
    lines = []
    for (part, bucket), v in sorted(byb.items()):
        name = '%s_%s_%s.json' % (pid, part, hashlib.sha1(bucket.encode()).hexdigest()[:8])
        path = os.path.join(VERIF, 'replays', name)
        with open(path, 'w') as f:
            rcase = v['case']
            if isinstance(v.get('detail'), dict) and 'replay_case' in v['detail']:
                rcase = v['detail']['replay_case']      # e.g. the crashing input of a fuzz campaign
            json.dump({'property': pid, 'part': part, 'bucket': bucket, 'message': v['msg'], 'detail': v.get('detail'),
                       'case': rcase, 'seed': seed, 'tier': tier, 'shrunk': v.get('shrunk')}, f, indent=1,
                      sort_keys=True, default=repr)
        lines.append('VIOLATION property=%s replay=%s' % (pid, path))
        sys.stderr.write('  [%s/%s] %s\n' % (part, bucket, v['msg'][:500]))

    for f in findings:
        if f.get('status') == 'open':
            print('KNOWN-FINDING: property=%s %s [%s; %d matching cases excluded in this run]'
                  % (pid, f['what'], f['key'], excluded.get(f['key'], 0)))

    wall = time.time() - t0
    ev = {
        'property_id': pid, 'tier': tier, 'seed': seed, 'level': getattr(mod, 'LEVEL', 'exploration'),
        'coverage': {
            'evaluations': evaluations,
            'distinct_nontrivial': len(hashes) + counted,
            'rule': mod.RULE,
            'samples': samples[:12],
            'classes': dict(sorted(classes.items())),
            'parts': {k: {'evaluations': v['evaluations'], 'distinct_nontrivial': v['distinct_nontrivial']}
                      for k, v in per_part.items()},
            'excluded_known': dict(excluded),
            'excluded_known_samples': excluded_samples,
            'mandatory_classes_missing': missing,
            'exhaustive': bool(parts) and all(p.exhaustive for p in parts),
            'exhaustive_parts': [p.name for p in parts if p.exhaustive],
            'notes': notes,
        },
        'assumptions': list(getattr(mod, 'ASSUMPTIONS', [])),
        'wall_s': round(wall, 2),
        'violations': len(byb),
    }
    if errors:
        ev['coverage']['harness_errors'] = errors[:10]
    os.makedirs(os.path.join(VERIF, 'evidence'), exist_ok=True)
    if not only_part and not os.environ.get('VERIF_SENS'):
        with open(os.path.join(VERIF, 'evidence', pid + '.json'), 'w') as f:
            json.dump(ev, f, indent=1, sort_keys=True, default=repr)
            f.write('\n')
    print('%s tier=%s seed=%d evaluations=%d distinct_nontrivial=%d excluded_known=%d violations=%d wall=%.1fs'
          % (pid, tier, seed, evaluations, len(hashes) + counted, sum(excluded.values()), len(byb), wall))
    for k, v in per_part.items():
        print('  part %-14s evaluations=%d distinct_nontrivial=%d' % (k, v['evaluations'], v['distinct_nontrivial']))
    for l in lines:
        print(l)
    if lines:
        return 1
    if errors:
        for e in errors[:5]:
            sys.stderr.write('HARNESS: ' + e + '\n')
        return 2
    if missing:
        sys.stderr.write('HARNESS: mandatory classes never generated: %s\n' % ', '.join(missing))
        return 2
    return 0


def replay(modname, path):
    prepare_process()
    with open(path) as f:
        rec = json.load(f)
    mod = importlib.import_module(modname)
    tier = rec.get('tier', 'quick')
    scratch = tempfile.mkdtemp(prefix='verif-replay-')
    os.chdir(scratch)
    try:
        if hasattr(mod, 'setup'):
            mod.setup(tier)
        part = [p for p in mod.parts(tier) if p.name == rec['part']][0]
        if part.setup:
            part.setup()
        try:
            res = part.run(rec['case'])
        except Violation as v:
            print('replay: violation reproduced: %s' % v)
            print('VIOLATION property=%s replay=%s' % (mod.PROPERTY, path))
            return 1
        print('replay: case passes (%r)' % (res,))
        return 0
    finally:
        os.chdir(VERIF)
        shutil.rmtree(scratch, ignore_errors=True)


def find_module(pid):
    d = os.path.join(VERIF, 'checks')
    for fn in sorted(os.listdir(d)):
        if fn.lower().startswith(pid.lower()) and fn.endswith('.py'):
            return 'checks.' + fn[:-3]
    raise SystemExit('no check module for %s' % pid)


def main(argv=None):
    ap = argparse.ArgumentParser()
    ap.add_argument('property')
    ap.add_argument('--tier', default=os.environ.get('VERIF_TIER', 'quick'))
    ap.add_argument('--replay')
    ap.add_argument('--part')
    a = ap.parse_args(argv)
    seed = int(os.environ.get('VERIF_SEED', '1') or '1')
    sys.path.insert(0, VERIF)
    modname = find_module(a.property)
    try:
        if a.replay:
            return replay(modname, a.replay)
        return run_check(modname, a.tier if a.tier in ('quick', 'thorough') else 'quick', seed, a.part)
    except SystemExit:
        raise
    except BaseException:
        traceback.print_exc()
        return 2


if __name__ == '__main__':
    sys.exit(main())
