"""Reference release policy for C07: the most permissive reading of the statement and docs/howto/config.rst.
allowed(k, v) says whether identity attribute k with value v may be released to the SP; the check is a subset test,
so it can only fire on a release that no reading allows."""
import importlib, re


def applicable(policy, sp, key):
    """per-SP entry if it has the key, else the default entry (config.rst: 'default' applies where nothing more specific is given)"""
    if not policy:
        return None
    if sp in policy and policy[sp] is not None and key in policy[sp]:
        return policy[sp][key]
    d = policy.get('default')
    if d and key in d:
        return d[key]
    return None


def _attr_maps():
    """(name_format, name.lower()) -> local name, from the shipped attribute map data tables"""
    out = {}
    for mod in ('saml_uri', 'basic', 'shibboleth_uri', 'adfs_v1x', 'adfs_v20'):
        m = importlib.import_module('saml2_tophat.attributemaps.' + mod).MAP
        for name, local in m.get('fro', {}).items():
            out[(m['identifier'], name.lower())] = local
    return out


_MAPS = None


def declared_names(req):
    """every identity key spelling (lower-cased) a RequestedAttribute may stand for"""
    global _MAPS
    if _MAPS is None:
        _MAPS = _attr_maps()
    names = set()
    if req.get('friendly_name'):
        names.add(req['friendly_name'].lower())
    names.add(req['name'].lower())
    for (fmt, n), local in _MAPS.items():
        if n == req['name'].lower() and (not req.get('name_format') or req['name_format'] == fmt):
            names.add(local.lower())
    return names


class Model(object):
    def __init__(self, policy, sp, sp_categories, requested):
        self.restr = applicable(policy, sp, 'attribute_restrictions')
        self.cats = applicable(policy, sp, 'entity_categories')
        self.requested = requested or []
        self.sp_categories = set(sp_categories or [])
        self.by_category = None
        if self.cats:
            allowed = set()
            required = set()
            for r in self.requested:
                if r.get('required'):
                    required |= declared_names(r)
            for cat in self.cats:
                mod = importlib.import_module('saml2_tophat.entity_category.' + cat)
                only = getattr(mod, 'ONLY_REQUIRED', {})
                for key, names in mod.RELEASE.items():
                    if key == '':
                        ok = True
                    elif isinstance(key, tuple):
                        ok = all(k in self.sp_categories for k in key)
                    else:
                        ok = key in self.sp_categories
                    if not ok:
                        continue
                    for n in names:
                        if key != '' and only.get(key) and n.lower() not in required:
                            continue
                        allowed.add(n.lower())
            self.by_category = allowed

    def allowed(self, k, v):
        """-> None if allowed, else the reason"""
        kl = k.lower()
        if self.restr:
            keys = dict((a.lower(), p) for a, p in self.restr.items())
            if kl not in keys:
                return 'attribute %r is not named by the attribute restrictions %r' % (k, sorted(keys))
            pats = keys[kl]
            if pats and not any(re.match(p, v) for p in pats):
                return 'value %r of %r matches none of the configured patterns %r' % (v, k, pats)
        if self.by_category is not None:
            if self.by_category and kl not in self.by_category:
                return 'attribute %r is not among those the SP\'s entity categories %r entitle it to (%r)' % (k, sorted(self.sp_categories), sorted(self.by_category))
        elif self.requested:
            hits = [r for r in self.requested if kl in declared_names(r)]
            if not hits:
                return 'attribute %r is outside the SP\'s declared required/optional attributes' % (k,)
            if not any((not r.get('values')) or v in r['values'] for r in hits):
                return 'value %r of %r is outside the values the SP declared' % (v, k)
        return None
