"""Child sequence order of core elements, transcribed by hand from the published XSDs (saml-schema-assertion-2.0,
saml-schema-protocol-2.0, saml-schema-metadata-2.0, xmldsig-core-schema, xenc-schema).  Independent ground truth
for the C12 'children are emitted in the schema's sequence order' clause, since the XSDs are not in the repository.
Elements inside an xs:choice maxOccurs=unbounded group share one rank."""
SAML = 'urn:oasis:names:tc:SAML:2.0:assertion'
SAMLP = 'urn:oasis:names:tc:SAML:2.0:protocol'
MD = 'urn:oasis:names:tc:SAML:2.0:metadata'
DS = 'http://www.w3.org/2000/09/xmldsig#'
XENC = 'http://www.w3.org/2001/04/xmlenc#'


def q(ns, *names):
    return ['{%s}%s' % (ns, n) for n in names]

_REQ = q(SAML, 'Issuer') + q(DS, 'Signature') + q(SAMLP, 'Extensions')
_ROLE = q(DS, 'Signature') + q(MD, 'Extensions', 'KeyDescriptor', 'Organization', 'ContactPerson')
_SSO = _ROLE + q(MD, 'ArtifactResolutionService', 'SingleLogoutService', 'ManageNameIDService', 'NameIDFormat')
_IDS = [tuple(q(SAML, 'BaseID', 'NameID', 'EncryptedID'))]

ORDER = {
    'saml:Assertion': q(SAML, 'Issuer') + q(DS, 'Signature') + q(SAML, 'Subject', 'Conditions', 'Advice') +
                      [tuple(q(SAML, 'Statement', 'AuthnStatement', 'AuthzDecisionStatement', 'AttributeStatement'))],
    'saml:Subject': _IDS + q(SAML, 'SubjectConfirmation'),
    'saml:SubjectConfirmation': _IDS + q(SAML, 'SubjectConfirmationData'),
    'saml:AuthnStatement': q(SAML, 'SubjectLocality', 'AuthnContext'),
    'saml:AuthnContext': q(SAML, 'AuthnContextClassRef') + [tuple(q(SAML, 'AuthnContextDecl', 'AuthnContextDeclRef'))] + q(SAML, 'AuthenticatingAuthority'),
    'saml:AuthzDecisionStatement': q(SAML, 'Action', 'Evidence'),
    'samlp:Response': _REQ + q(SAMLP, 'Status') + [tuple(q(SAML, 'Assertion', 'EncryptedAssertion'))],
    'samlp:Status': q(SAMLP, 'StatusCode', 'StatusMessage', 'StatusDetail'),
    'samlp:AuthnRequest': _REQ + q(SAML, 'Subject') + q(SAMLP, 'NameIDPolicy') + q(SAML, 'Conditions') + q(SAMLP, 'RequestedAuthnContext', 'Scoping'),
    'samlp:LogoutRequest': _REQ + _IDS + q(SAMLP, 'SessionIndex'),
    'samlp:LogoutResponse': _REQ + q(SAMLP, 'Status'),
    'samlp:AttributeQuery': _REQ + q(SAML, 'Subject', 'Attribute'),
    'samlp:ArtifactResponse': _REQ + q(SAMLP, 'Status'),
    'samlp:Scoping': q(SAMLP, 'IDPList', 'RequesterID'),
    'samlp:IDPList': q(SAMLP, 'IDPEntry', 'GetComplete'),
    'md:EntityDescriptor': q(DS, 'Signature') + q(MD, 'Extensions') +
                           [tuple(q(MD, 'RoleDescriptor', 'IDPSSODescriptor', 'SPSSODescriptor', 'AuthnAuthorityDescriptor', 'AttributeAuthorityDescriptor',
                                    'PDPDescriptor', 'AffiliationDescriptor'))] + q(MD, 'Organization', 'ContactPerson', 'AdditionalMetadataLocation'),
    'md:EntitiesDescriptor': q(DS, 'Signature') + q(MD, 'Extensions') + [tuple(q(MD, 'EntityDescriptor', 'EntitiesDescriptor'))],
    'md:IDPSSODescriptor': _SSO + q(MD, 'SingleSignOnService', 'NameIDMappingService', 'AssertionIDRequestService', 'AttributeProfile') + q(SAML, 'Attribute'),
    'md:SPSSODescriptor': _SSO + q(MD, 'AssertionConsumerService', 'AttributeConsumingService'),
    'md:AttributeAuthorityDescriptor': _ROLE + q(MD, 'AttributeService', 'AssertionIDRequestService', 'NameIDFormat', 'AttributeProfile') + q(SAML, 'Attribute'),
    'md:AttributeConsumingService': q(MD, 'ServiceName', 'ServiceDescription', 'RequestedAttribute'),
    'md:Organization': q(MD, 'Extensions', 'OrganizationName', 'OrganizationDisplayName', 'OrganizationURL'),
    'md:ContactPerson': q(MD, 'Extensions', 'Company', 'GivenName', 'SurName', 'EmailAddress', 'TelephoneNumber'),
    'md:KeyDescriptor': q(DS, 'KeyInfo') + q(MD, 'EncryptionMethod'),
    'xmldsig:Signature': q(DS, 'SignedInfo', 'SignatureValue', 'KeyInfo', 'Object'),
    'xmldsig:SignedInfo': q(DS, 'CanonicalizationMethod', 'SignatureMethod', 'Reference'),
    'xmldsig:Reference': q(DS, 'Transforms', 'DigestMethod', 'DigestValue'),
    'xmldsig:RSAKeyValue': q(DS, 'Modulus', 'Exponent'),
    'xmlenc:EncryptedData': q(XENC, 'EncryptionMethod') + q(DS, 'KeyInfo') + q(XENC, 'CipherData', 'EncryptionProperties'),
    'xmlenc:EncryptedKey': q(XENC, 'EncryptionMethod') + q(DS, 'KeyInfo') + q(XENC, 'CipherData', 'EncryptionProperties', 'ReferenceList', 'CarriedKeyName'),
    'saml:EncryptedAssertion': q(XENC, 'EncryptedData', 'EncryptedKey'),
}


def ranks(clsname):
    r = {}
    for i, item in enumerate(ORDER.get(clsname, [])):
        for t in (item if isinstance(item, tuple) else (item,)):
            r[t] = i
    return r
