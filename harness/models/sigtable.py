"""Reference decision for C02, derived from docs/howto/config.rst (want_response_signed, want_assertions_signed,
want_assertions_or_response_signed) and the property statement."""


def expected_accept(wrs, was, wors, response_signed, assertions_signed, all_present_valid):
    """response_signed / assertions_signed: a signature is present (on the response / on every assertion)."""
    if not all_present_valid:
        return False
    if wrs and not response_signed:
        return False
    if was and not assertions_signed:
        return False
    if wors and not (response_signed or assertions_signed):
        return False
    return True
