"""Reference validator for C13, written from the property statement (not from validate.py):
a spec is invalid iff somewhere in the tree
  * an attribute its class declares required is missing or empty,
  * a child occurs fewer / more times than the min / max its class declares (c_cardinality),
  * an attribute or text of a declared dateTime, boolean, integer-kind, duration or enumerated type does not conform.
Only *clearly* valid / invalid lexical forms are decided; anything else is reported as 'unknown' (never generated)."""
import re
from harness import schema_gen as G

_DT = re.compile(r'^-?[0-9]{4,}-([0-9]{2})-([0-9]{2})T([0-9]{2}):([0-9]{2}):([0-9]{2})(\.[0-9]+)?(Z|[+-][0-9]{2}:[0-9]{2})?\Z')
_DUR = re.compile(r'^-?P(?=.)([0-9]+Y)?([0-9]+M)?([0-9]+D)?(T(?=.)([0-9]+H)?([0-9]+M)?([0-9]+(\.[0-9]+)?S)?)?\Z')
_INT = re.compile(r'^[+-]?[0-9]+\Z')


def conforms(tn, v):
    """True / False for the checked simple types, None for types the statement does not cover."""
    if isinstance(tn, tuple):
        if tn[0] == 'enum':
            return v in tn[1]
        return None
    if tn in ('dateTime', 'datetime'):
        m = _DT.match(v)
        if not m:
            return False
        mo, d, h, mi, s = [int(x) for x in m.groups()[:5]]
        return 1 <= mo <= 12 and 1 <= d <= 31 and h <= 23 and mi <= 59 and s <= 59
    if tn == 'boolean':
        return v in ('true', 'false', '0', '1')
    if tn == 'integer':
        return bool(_INT.match(v))
    if tn == 'nonNegativeInteger':
        return bool(_INT.match(v)) and int(v) >= 0
    if tn in ('positiveInteger', 'PositiveInteger'):
        return bool(_INT.match(v)) and int(v) > 0
    if tn == 'unsignedShort':
        return bool(_INT.match(v)) and 0 <= int(v) <= 65535
    if tn == 'duration':
        return bool(_DUR.match(v))
    return None


def problems(spec, path=''):
    out = []
    cls = G.classes()[spec['cls']]
    here = path + '/' + spec['cls'].split(':')[1]
    for xn, member, typ, req in G.attrs_of(cls):
        v = spec['attrs'].get(member)
        if req and not v:
            out.append('%s: required attribute %s missing or empty' % (here, xn))
        if v is not None:       # an attribute that is there with an empty value conforms to none of the checked types
            c = conforms(G.type_name(typ), v)
            if c is False:
                out.append('%s: attribute %s=%r does not conform to %r' % (here, xn, v, G.type_name(typ)))
    vt = getattr(cls, 'c_value_type', None)
    if vt and spec.get('text') and 'maxlen' not in vt:
        c = conforms(G.value_type_name(vt), spec['text'].strip())
        if c is False:
            out.append('%s: text %r does not conform to %r' % (here, spec['text'], G.value_type_name(vt)))
    for tag, member, ccls, is_list in G.children_of(cls):
        n = len(spec['children'].get(member, []))
        cmin, cmax = G.card(cls, member)
        if cmin is not None and n < cmin:
            out.append('%s: child %s occurs %d times, minimum %d' % (here, member, n, cmin))
        if cmax is not None and n > cmax:
            out.append('%s: child %s occurs %d times, maximum %d' % (here, member, n, cmax))
    for member, lst in spec['children'].items():
        for c in lst:
            out.extend(problems(c, here))
    return out
