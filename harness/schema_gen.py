"""Generators over the schema class tables (shared by C12 and C13).

A *spec* is plain data: {'cls': 'module:Class', 'attrs': {member: str}, 'children': {member: [spec, ...]},
'text': str|None}.  `build(spec)` turns it into library objects by plain attribute assignment."""
import importlib, inspect, pkgutil

_SKIP = ('s2repoze', 'mongo', 'mdbcache', 'mcache', 'ldapinfo', 'userinfo')
_classes = None
_modules = None


def schema_modules():
    global _modules
    if _modules is None:
        import saml2_tophat
        mods = []
        for m in sorted(pkgutil.walk_packages(saml2_tophat.__path__, 'saml2_tophat.'), key=lambda m: m.name):
            if any(x in m.name for x in _SKIP):
                continue
            try:
                mod = importlib.import_module(m.name)
            except Exception:
                continue
            if hasattr(mod, 'ELEMENT_BY_TAG') or hasattr(mod, 'ELEMENT_FROM_STRING'):
                mods.append(mod)
        _modules = mods
    return _modules


def classes():
    """'module:Class' -> class, every SamlBase subclass defined in a schema module that has a tag."""
    global _classes
    if _classes is None:
        from saml2_tophat import SamlBase
        out = {}
        for mod in schema_modules():
            for name, cls in sorted(inspect.getmembers(mod, inspect.isclass)):
                if not issubclass(cls, SamlBase) or cls.__module__ != mod.__name__:
                    continue
                if not getattr(cls, 'c_tag', None) or not getattr(cls, 'c_namespace', None):
                    continue
                out['%s:%s' % (mod.__name__[len('saml2_tophat.'):], name)] = cls
        _classes = out
    return _classes


def cname(cls):
    return '%s:%s' % (cls.__module__[len('saml2_tophat.'):], cls.__name__)


def children_of(cls):
    """[(xml tag, member, child class, is_list)] in table order"""
    out = []
    for tag, (member, spec) in cls.c_children.items():
        if isinstance(spec, list):
            out.append((tag, member, spec[0], True))
        else:
            out.append((tag, member, spec, False))
    return out


def attrs_of(cls):
    """[(xml name, member, type, required)]"""
    return [(xn, m, t, r) for xn, (m, t, r) in cls.c_attributes.items()]


def usable_child(ccls):
    return ccls is not None and inspect.isclass(ccls) and getattr(ccls, 'c_tag', None) and getattr(ccls, 'c_namespace', None)


# ------------------------------------------------------------------ typed values
def type_name(typ):
    """normalised simple type name of an attribute / value type, or ('enum', [...]) / ('list', member)"""
    if inspect.isclass(typ):
        vt = getattr(typ, 'c_value_type', None)
        if not vt:
            return 'string'
        return value_type_name(vt)
    if typ is None:
        return 'string'
    t = str(typ)
    if ':' in t:
        t = t.split(':')[-1]
    return t or 'string'


def value_type_name(vt):
    if 'enumeration' in vt:
        return ('enum', list(vt['enumeration']))
    base = vt.get('base', 'string')
    if base == 'list':
        return ('list', vt.get('member', 'string'))
    if ':' in base:
        base = base.split(':')[-1]
    return base


VALID_VALUES = {
    'string': ['value', 'a b', u'gr\xfc\xdfe', u'\U00020bb7\u91ce\u5bb6 \U0001f600'],      # incl. characters outside the basic multilingual plane
    'anyURI': ['urn:example:a', 'https://example.org/x?y=1'],
    'ID': ['id-1234', '_abc'],
    'NCName': ['name1', '_n-2.x'],
    'dateTime': ['2024-05-06T07:08:09Z', '2030-01-01T00:00:00Z'],
    'datetime': ['2024-05-06T07:08:09Z'],
    'boolean': ['true', 'false'],
    'integer': ['0', '17', '-3'],
    'nonNegativeInteger': ['0', '5'],
    'positiveInteger': ['1', '42'],
    'PositiveInteger': ['1', '42'],
    'unsignedShort': ['0', '65535', '7'],
    'unsignedByte': ['0', '255'],
    'unsignedInt': ['0', '123'],
    'unsignedLong': ['0', '123'],
    'duration': ['P1DT30M', 'P1Y2M3DT4H5M6S', 'PT30M', 'P7D', 'P1DT1H30M', '-P1Y', 'PT0.5S'],
    'base64Binary': ['QUJD', 'AAAA'],
    'QName': ['p:local', 'local'],
    'anyType': ['anything'],
    'NMTOKEN': ['tok'],
    'NMTOKENS': ['tok1 tok2'],
    'entityIDType': ['urn:example:entity'],
    'listOfStrings': ['a b'],
}

# clearly invalid spellings per checked simple type (C13 statement: dateTime, boolean, integer kinds, duration, enumerations)
INVALID_VALUES = {
    'dateTime': ['', '2024-01-01T00:00:61Z', 'not-a-date', '2020-13-45T25:61:61Z', '12 May 2020',
                 # near misses: a conforming value with something before / after / inside it
                 '2024-01-01T00:00:00Zjunk', '2024-01-01T00:00:00 UTC', '2024-01-01T00:00:00+0100', '2024-01-01T00:00:00.5.5Z', '2024-01-01T00:00:00ZZ', 'x2024-01-01T00:00:00Z',
                 '2024-01-01', '2024-01-01T00:00Z', '2024-01-01T00:00:00Z 2024-01-01T00:00:00Z', '2024-01-01T24:00:01Z', '2024-1-1T0:0:0Z', '2024-01-01t00:00:00z', '2024-01-01T00:00:00.Z'],
    'boolean': ['', 'maybe', '2', 'yes', 'truex', 'xtrue', 'true false', '1x', 'falsey', '01', 't', '-1', 'True', 'TRUE'],
    'integer': ['', '1.5', 'abc', '1e3', '12abc', 'abc12', '1 2', '0x10', '1,000', '1_000', '--5', '5-', u'\u0661\u0662'],
    'nonNegativeInteger': ['', '-1', '1.5', 'abc', '12abc', '1_0', '-1x'],
    'positiveInteger': ['', '0', '-1', 'abc', '1x', '0x1', '1_0', '-0'],
    'PositiveInteger': ['0', '-1', 'abc', '1x', '1_0'],
    'unsignedShort': ['', '-1', '65536', 'abc', '1.5', '65535x', '1_0', '+-1', '0x10'],
    'duration': ['', 'PT1,5S', 'P-1Y', 'one hour', '12', 'P1Yjunk', 'xP1Y', 'P1Y2', 'PT', 'P', 'P1S', 'P1Y ', 'P1M1Y', 'P1YT', '1Y', 'PT1Y', 'PT1H1H', 'P1.5Y'],
}
# spellings the library accepts although they do not conform (KNOWN_FINDINGS.json; the check excludes exactly these and counts them)
LENIENT_KNOWN = {
    'C13-boolean-case-variants-accepted': ('boolean', ['True', 'TRUE']),
    'C13-datetime-lenient-lexical-forms': ('dateTime', ['2024-1-1T0:0:0Z', '2024-01-01t00:00:00z', '2024-01-01T00:00:00.Z', '2024-01-01T00:00:61Z']),
    'C13-duration-lenient-lexical-forms': ('duration', ['P1.5Y', 'PT1,5S']),
}


def valid_value(typ, i=0):
    tn = type_name(typ) if not isinstance(typ, (tuple, str)) or inspect.isclass(typ) else typ
    return _valid_for(tn, i)


def _valid_for(tn, i=0):
    if isinstance(tn, tuple):
        if tn[0] == 'enum':
            return tn[1][i % len(tn[1])]
        if tn[0] == 'list':
            return _valid_for(tn[1].split(':')[-1], i)
    vals = VALID_VALUES.get(tn)
    if vals is None:
        vals = VALID_VALUES['string']
    return vals[i % len(vals)]


# ------------------------------------------------------------------ spec -> objects
def build(spec):
    cls = classes()[spec['cls']]
    inst = cls()
    for member, v in spec.get('attrs', {}).items():
        setattr(inst, member, v)
    for member, lst in spec.get('children', {}).items():
        is_list = [il for (t, m, c, il) in children_of(cls) if m == member][0]
        objs = [build(s) for s in lst]
        if member in spec.get('as_list', ()):
            is_list = True      # a single-valued member deliberately given several values (occurrence fault)
        setattr(inst, member, objs if is_list else (objs[0] if objs else None))
    if spec.get('text') is not None:
        inst.text = spec['text']
    for name, v in spec.get('ext_attrs', {}).items():
        inst.extension_attributes[name] = v        # attributes the class does not declare (foreign or namespace-qualified look-alikes)
    return inst


def card(cls, member):
    c = cls.c_cardinality.get(member)
    if not c:
        return None, None
    return c.get('min'), c.get('max')


def full_spec(clsname, depth, variant=0, valid=True, _seen=()):
    """deterministic instance: every attribute set, every child present (min.. occurrences), depth-bounded."""
    cls = classes()[clsname]
    spec = {'cls': clsname, 'attrs': {}, 'children': {}, 'text': None}
    for k, (xn, member, typ, req) in enumerate(attrs_of(cls)):
        spec['attrs'][member] = valid_value(typ, variant + k)
    vt = getattr(cls, 'c_value_type', None)
    if vt:
        spec['text'] = _valid_for(value_type_name(vt), variant)
    for tag, member, ccls, is_list in children_of(cls):
        if not usable_child(ccls):
            continue
        cn = cname(ccls)
        if cn not in classes():
            continue
        cmin, cmax = card(cls, member)
        need = cmin or 0
        if depth <= 0 or cn in _seen:
            n = need
            if n and cn in _seen and depth <= -2:
                n = 0       # unsatisfiable recursion guard
        else:
            n = max(need, (2 if is_list and variant % 2 == 0 else 1))
        if cmax is not None:
            n = min(n, cmax)
        if not is_list:
            n = min(n, 1)
        if n:
            spec['children'][member] = [full_spec(cn, depth - 1, variant + j + 1, valid, _seen + (clsname,)) for j in range(n)]
    return spec


def spec_size(spec):
    return 1 + sum(spec_size(c) for l in spec.get('children', {}).values() for c in l)


# ------------------------------------------------------------------ hypothesis strategy
def instance_strategy(clsname, depth, text_st, attr_st=None, valid=False, max_list=3):
    """random instance tree of a class.  valid=True: required attributes set, typed valid values, cardinalities honoured."""
    from hypothesis import strategies as st
    if attr_st is None:
        attr_st = text_st

    @st.composite
    def inst(draw, cn, d, seen):
        cls = classes()[cn]
        spec = {'cls': cn, 'attrs': {}, 'children': {}, 'text': None}
        for (xn, member, typ, req) in attrs_of(cls):
            if (valid and req) or draw(st.booleans()):
                if valid:
                    spec['attrs'][member] = valid_value(typ, draw(st.integers(0, 2)))
                else:
                    spec['attrs'][member] = draw(attr_st)
        vt = getattr(cls, 'c_value_type', None)
        kids = [(t, m, c, il) for (t, m, c, il) in children_of(cls) if usable_child(c) and cname(c) in classes()]
        if vt:
            if valid:
                spec['text'] = _valid_for(value_type_name(vt), draw(st.integers(0, 2)))
            elif draw(st.booleans()):
                spec['text'] = draw(text_st)
        elif not kids and not valid and draw(st.integers(0, 3)) == 0:
            spec['text'] = draw(text_st)
        for tag, member, ccls, is_list in kids:
            cn2 = cname(ccls)
            cmin, cmax = card(cls, member)
            lo = (cmin or 0) if valid else 0
            if d <= 0 or seen.count(cn2) >= 1:
                n = lo
                if seen.count(cn2) >= 2:
                    n = 0
            else:
                hi = (max_list if draw(st.integers(0, 5)) else 2 * max_list) if is_list else 1
                if cmax is not None and valid:
                    hi = min(hi, cmax)
                hi = max(hi, lo)
                # keep big classes small: children are mostly absent below the top level
                if d < depth and lo == 0 and draw(st.integers(0, 2)) != 0:
                    n = 0
                else:
                    n = draw(st.integers(lo, hi))
            if not is_list:
                n = min(n, 1)
            if n:
                spec['children'][member] = [draw(inst(cn2, d - 1, seen + [cn])) for _ in range(n)]
        return spec
    return inst(clsname, depth, [])
