"""Independent message builder (DESIGN 2.3): SAML documents rendered from plain-data specs with string
templates, signed / encrypted by calling the xmlsec stand-in directly with pool keys.  Nothing here uses the
library's own builders, so SP-side checks do not depend on IdP-side code."""
import os, tempfile, base64
from xml.sax.saxutils import escape as _esc, quoteattr as _qa
from harness import world

SAML = 'urn:oasis:names:tc:SAML:2.0:assertion'
SAMLP = 'urn:oasis:names:tc:SAML:2.0:protocol'
DS = 'http://www.w3.org/2000/09/xmldsig#'
XENC = 'http://www.w3.org/2001/04/xmlenc#'
XSI = 'http://www.w3.org/2001/XMLSchema-instance'
XS = 'http://www.w3.org/2001/XMLSchema'
ASSERTION_NODE = SAML + ':Assertion'
RESPONSE_NODE = SAMLP + ':Response'
BEARER = 'urn:oasis:names:tc:SAML:2.0:cm:bearer'
SUCCESS = 'urn:oasis:names:tc:SAML:2.0:status:Success'
PASSWORD = 'urn:oasis:names:tc:SAML:2.0:ac:classes:Password'
ENTITY = 'urn:oasis:names:tc:SAML:2.0:nameid-format:entity'
TRANSIENT = 'urn:oasis:names:tc:SAML:2.0:nameid-format:transient'
PERSISTENT = 'urn:oasis:names:tc:SAML:2.0:nameid-format:persistent'

SIG_ALGS = {
    'sha1': (DS + 'rsa-sha1', DS + 'sha1'),
    'sha224': ('http://www.w3.org/2001/04/xmldsig-more#rsa-sha224', 'http://www.w3.org/2001/04/xmldsig-more#sha224'),
    'sha256': ('http://www.w3.org/2001/04/xmldsig-more#rsa-sha256', 'http://www.w3.org/2001/04/xmlenc#sha256'),
    'sha384': ('http://www.w3.org/2001/04/xmldsig-more#rsa-sha384', 'http://www.w3.org/2001/04/xmldsig-more#sha384'),
    'sha512': ('http://www.w3.org/2001/04/xmldsig-more#rsa-sha512', 'http://www.w3.org/2001/04/xmlenc#sha512'),
}
HASHES = sorted(SIG_ALGS)


def ts(epoch, frac='', zone='Z'):
    import time
    return time.strftime('%Y-%m-%dT%H:%M:%S', time.gmtime(int(epoch))) + frac + zone


def _attrs(pairs):
    return ''.join(' %s=%s' % (k, _qa(v)) for k, v in pairs if v is not None)


def sig_template(ref_id, alg='sha256', keyinfo=None, digest_alg=None, uri=None):
    """ds:Signature template with empty DigestValue / SignatureValue.  keyinfo: None | ('x509', cert body) |
    ('rsa', modulus b64, exponent b64) | raw xml string"""
    sig, dig = SIG_ALGS[alg]
    if digest_alg:
        dig = SIG_ALGS[digest_alg][1]
    ki = ''
    if isinstance(keyinfo, (list, tuple)):
        if keyinfo[0] == 'x509':
            ki = '<ds:KeyInfo><ds:X509Data><ds:X509Certificate>%s</ds:X509Certificate></ds:X509Data></ds:KeyInfo>' % keyinfo[1]
        elif keyinfo[0] == 'rsa':
            ki = ('<ds:KeyInfo><ds:KeyValue><ds:RSAKeyValue><ds:Modulus>%s</ds:Modulus><ds:Exponent>%s</ds:Exponent>'
                  '</ds:RSAKeyValue></ds:KeyValue></ds:KeyInfo>') % (keyinfo[1], keyinfo[2])
    elif keyinfo:
        ki = keyinfo
    return ('<ds:Signature xmlns:ds="%s"><ds:SignedInfo><ds:CanonicalizationMethod Algorithm="http://www.w3.org/2001/10/xml-exc-c14n#"/>'
            '<ds:SignatureMethod Algorithm="%s"/><ds:Reference URI=%s><ds:Transforms>'
            '<ds:Transform Algorithm="%senveloped-signature"/><ds:Transform Algorithm="http://www.w3.org/2001/10/xml-exc-c14n#"/>'
            '</ds:Transforms><ds:DigestMethod Algorithm="%s"/><ds:DigestValue/></ds:Reference></ds:SignedInfo>'
            '<ds:SignatureValue/>%s</ds:Signature>') % (DS, sig, _qa(uri if uri is not None else '#' + ref_id), DS, dig, ki)


def name_id_xml(n, tag='saml:NameID'):
    if n is None:
        return ''
    return '<%s%s>%s</%s>' % (tag, _attrs([('Format', n.get('format')), ('NameQualifier', n.get('name_qualifier')),
                                              ('SPNameQualifier', n.get('sp_name_qualifier')), ('SPProvidedID', n.get('sp_provided_id'))]),
                              _esc(n.get('text', '')), tag)


def assertion_xml(a):
    """a: dict, see module docstring of checks using it; every field optional except id / issuer."""
    out = ['<saml:Assertion xmlns:saml="%s" xmlns:xs="%s" xmlns:xsi="%s"%s>' % (
        SAML, XS, XSI, _attrs([('ID', a['id']), ('Version', a.get('version', '2.0')), ('IssueInstant', a.get('issue_instant'))]))]
    out.append('<saml:Issuer%s>%s</saml:Issuer>' % (_attrs([('Format', a.get('issuer_format', ENTITY))]), _esc(a['issuer'])))
    if a.get('signature'):
        out.append(a['signature'])
    subj = a.get('subject')
    if subj is not None:
        out.append('<saml:Subject>')
        out.append(subj['raw_id'] if subj.get('raw_id') else name_id_xml(subj.get('name_id')))     # raw_id: ready-made identifier element, e.g. an EncryptedID
        for sc in subj.get('confirmations', []):
            d = sc.get('data')
            out.append('<saml:SubjectConfirmation Method=%s>' % _qa(sc.get('method', BEARER)))
            if d is not None:
                out.append('<saml:SubjectConfirmationData%s/>' % _attrs([('InResponseTo', d.get('in_response_to')), ('NotBefore', d.get('not_before')),
                                                                         ('NotOnOrAfter', d.get('not_on_or_after')), ('Recipient', d.get('recipient')),
                                                                         ('Address', d.get('address'))]))
            out.append('</saml:SubjectConfirmation>')
        out.append('</saml:Subject>')
    c = a.get('conditions')
    if c is not None:
        out.append('<saml:Conditions%s>' % _attrs([('NotBefore', c.get('not_before')), ('NotOnOrAfter', c.get('not_on_or_after'))]))
        for auds in c.get('audiences', []):
            out.append('<saml:AudienceRestriction>%s</saml:AudienceRestriction>' % ''.join('<saml:Audience>%s</saml:Audience>' % _esc(x) for x in auds))
        if c.get('one_time_use'):
            out.append('<saml:OneTimeUse/>')
        out.append('</saml:Conditions>')
    if a.get('advice'):
        out.append('<saml:Advice>%s</saml:Advice>' % a['advice'])
    for st in a.get('authn', []):
        out.append('<saml:AuthnStatement%s>' % _attrs([('AuthnInstant', st.get('authn_instant')), ('SessionIndex', st.get('session_index')),
                                                       ('SessionNotOnOrAfter', st.get('session_not_on_or_after'))]))
        out.append('<saml:AuthnContext><saml:AuthnContextClassRef>%s</saml:AuthnContextClassRef></saml:AuthnContext>' % _esc(st.get('class_ref', PASSWORD)))
        out.append('</saml:AuthnStatement>')
    attrs = a.get('attributes')
    if attrs:
        out.append('<saml:AttributeStatement>')
        for at in attrs:
            out.append('<saml:Attribute%s>' % _attrs([('Name', at['name']), ('NameFormat', at.get('name_format')), ('FriendlyName', at.get('friendly_name'))]))
            for v in at.get('values', []):
                out.append('<saml:AttributeValue xsi:type="xs:string">%s</saml:AttributeValue>' % _esc(v))
            out.append('</saml:Attribute>')
        out.append('</saml:AttributeStatement>')
    out.append('</saml:Assertion>')
    return ''.join(out)


def status_xml(st):
    st = st or {}
    inner = ''
    if st.get('sub'):
        inner = '<samlp:StatusCode Value=%s/>' % _qa(st['sub'])
    msg = '<samlp:StatusMessage>%s</samlp:StatusMessage>' % _esc(st['message']) if st.get('message') else ''
    code = st.get('code', SUCCESS)
    extra = st.get('code_extra_attrs', '')       # raw attribute text appended to the top-level StatusCode start tag
    if inner:
        return '<samlp:Status><samlp:StatusCode Value=%s%s>%s</samlp:StatusCode>%s</samlp:Status>' % (_qa(code), extra, inner, msg)
    return '<samlp:Status><samlp:StatusCode Value=%s%s/>%s</samlp:Status>' % (_qa(code), extra, msg)


def response_xml(r):
    out = ['<samlp:Response xmlns:samlp="%s" xmlns:saml="%s"%s>' % (
        SAMLP, SAML, _attrs([('ID', r['id']), ('Version', r.get('version', '2.0')), ('IssueInstant', r.get('issue_instant')),
                             ('Destination', r.get('destination')), ('InResponseTo', r.get('in_response_to'))]) + r.get('extra_attrs', ''))]
    if r.get('issuer') is not None:
        out.append('<saml:Issuer%s>%s</saml:Issuer>' % (_attrs([('Format', r.get('issuer_format', ENTITY))]), _esc(r['issuer'])))
    if r.get('signature'):
        out.append(r['signature'])
    if r.get('extensions'):
        out.append('<samlp:Extensions>%s</samlp:Extensions>' % r['extensions'])
    if r.get('status', {}) is not None:
        out.append(status_xml(r.get('status')))
    for a in r.get('assertions', []):
        out.append(a)
    if r.get('trailing_status'):
        out.append(status_xml(r['trailing_status']))      # a second Status element after the assertions (schema-invalid on purpose)
    out.append('</samlp:Response>')
    return ''.join(out)


# ------------------------------------------------------------------ tool calls
def _tool(argv):
    import emul
    return emul.main(['xmlsec1'] + argv)


def _tmp(data, suffix='.xml'):
    fd, path = tempfile.mkstemp(suffix=suffix, dir=os.getcwd())
    with os.fdopen(fd, 'wb') as f:
        f.write(data if isinstance(data, bytes) else data.encode('utf-8'))
    return path


def strip_decl(xml):
    if xml.startswith('<?xml'):
        xml = xml[xml.index('?>') + 2:].lstrip()
    return xml.rstrip('\n')


def sign(xml, node_name, node_id, key_idx, id_attr='ID'):
    """fill the signature template found below the element (node_name, node_id) using pool key key_idx"""
    src = _tmp(xml)
    out = src + '.out'
    try:
        rc, o, e = _tool(['--sign', '--privkey-pem', world.key(key_idx), '--id-attr:%s' % id_attr, node_name, '--node-id', node_id, '--output', out, src])
        if rc != 0:
            raise RuntimeError('harness signing failed: %r' % e)
        with open(out, 'rb') as f:
            return strip_decl(f.read().decode('utf-8'))
    finally:
        for p in (src, out):
            try:
                os.unlink(p)
            except OSError:
                pass


def verify(xml, node_name, node_id, cert_idx, id_attr='ID', enabled_key_data=None):
    src = _tmp(xml)
    try:
        argv = ['--verify', '--enabled-reference-uris', 'empty,same-doc', '--pubkey-cert-pem', world.crt(cert_idx), '--id-attr:%s' % id_attr, node_name,
                '--node-id', node_id]
        if enabled_key_data:
            argv += ['--enabled-key-data', enabled_key_data]
        rc, o, e = _tool(argv + [src])
        return rc == 0 and b'OK' in e.split(b'\n')
    finally:
        os.unlink(src)


ENC_TEMPLATE = ('<?xml version="1.0" encoding="UTF-8"?><xenc:EncryptedData xmlns:xenc="%s" Id="ED" Type="http://www.w3.org/2001/04/xmlenc#Element">'
                '<xenc:EncryptionMethod Algorithm="%s"/><ds:KeyInfo xmlns:ds="%s"><xenc:EncryptedKey Id="EK">'
                '<xenc:EncryptionMethod Algorithm="%s"/><ds:KeyInfo><ds:KeyName>verif</ds:KeyName></ds:KeyInfo>'
                '<xenc:CipherData><xenc:CipherValue/></xenc:CipherData></xenc:EncryptedKey></ds:KeyInfo>'
                '<xenc:CipherData><xenc:CipherValue/></xenc:CipherData></xenc:EncryptedData>')
BLOCK = {'aes128': (XENC + 'aes128-cbc', 'aes-128'), 'aes256': (XENC + 'aes256-cbc', 'aes-256'), '3des': (XENC + 'tripledes-cbc', 'des-192')}
TRANSPORT = {'rsa15': XENC + 'rsa-1_5', 'oaep': XENC + 'rsa-oaep-mgf1p'}


def encrypt_assertions(response, cert_idx, block='aes128', transport='oaep', xpath=None):
    """response: XML whose assertions are already wrapped as <saml:EncryptedAssertion><saml:Assertion ..>; encrypts the first
    (remaining) clear assertion inside an EncryptedAssertion for pool certificate cert_idx."""
    tmpl = _tmp(ENC_TEMPLATE % (XENC, BLOCK[block][0], DS, TRANSPORT[transport]))
    src = _tmp(response)
    out = src + '.out'
    try:
        rc, o, e = _tool(['--encrypt', '--pubkey-cert-pem', world.crt(cert_idx), '--session-key', BLOCK[block][1], '--xml-data', src,
                          '--node-xpath', xpath or "/*[local-name()='Response']/*[local-name()='EncryptedAssertion']/*[local-name()='Assertion']",
                          '--output', out, tmpl])
        if rc != 0:
            raise RuntimeError('harness encryption failed: %r' % e)
        with open(out, 'rb') as f:
            return strip_decl(f.read().decode('utf-8'))
    finally:
        for p in (tmpl, src, out):
            try:
                os.unlink(p)
            except OSError:
                pass


def decrypt(xml, key_idx):
    """harness-side decryption of the first EncryptedData; None if it cannot be decrypted with that key"""
    src = _tmp(xml)
    out = src + '.out'
    try:
        rc, o, e = _tool(['--decrypt', '--privkey-pem', world.key(key_idx), '--id-attr:ID', 'EncryptedKey', '--output', out, src])
        if rc != 0:
            return None
        with open(out, 'rb') as f:
            return strip_decl(f.read().decode('utf-8'))
    finally:
        for p in (src, out):
            try:
                os.unlink(p)
            except OSError:
                pass


def b64(xml):
    return base64.b64encode(xml.encode('utf-8')).decode('ascii')


def rsa_keyvalue(key_idx):
    from cryptography import x509
    with open(world.crt(key_idx), 'rb') as f:
        pn = x509.load_pem_x509_certificate(f.read()).public_key().public_numbers()
    enc = lambda n: base64.b64encode(n.to_bytes((n.bit_length() + 7) // 8, 'big')).decode()
    return ('rsa', enc(pn.n), enc(pn.e))


# ------------------------------------------------------------------ a standard valid response
def standard(now, sp_entity='https://sp.verif.example/sp', acs='https://sp.verif.example/acs/post', idp_entity='https://idp.verif.example/idp',
             in_response_to='id-req-1', rid='id-resp-1', aid='id-assertion-1', attributes=None, name_id=None, lifetime=600):
    """(response spec, assertion spec) of a profile-conformant web-SSO response; callers edit the dicts"""
    a = {'id': aid, 'issue_instant': ts(now), 'issuer': idp_entity,
         'subject': {'name_id': name_id or {'text': 'subject-0001', 'format': TRANSIENT, 'sp_name_qualifier': sp_entity},
                     'confirmations': [{'method': BEARER, 'data': {'in_response_to': in_response_to, 'recipient': acs, 'not_on_or_after': ts(now + lifetime)}}]},
         'conditions': {'not_before': ts(now - 60), 'not_on_or_after': ts(now + lifetime), 'audiences': [[sp_entity]]},
         'authn': [{'authn_instant': ts(now - 5), 'session_index': 'sess-1', 'class_ref': PASSWORD}],
         'attributes': attributes if attributes is not None else [
             {'name': 'urn:oid:2.5.4.42', 'name_format': 'urn:oasis:names:tc:SAML:2.0:attrname-format:uri', 'friendly_name': 'givenName', 'values': ['Alice']},
             {'name': 'urn:oid:0.9.2342.19200300.100.1.3', 'name_format': 'urn:oasis:names:tc:SAML:2.0:attrname-format:uri', 'friendly_name': 'mail', 'values': ['alice@example.org']}]}
    r = {'id': rid, 'issue_instant': ts(now), 'destination': acs, 'in_response_to': in_response_to, 'issuer': idp_entity, 'status': {'code': SUCCESS}}
    return r, a


def render(r, a_list, sign_response=None, sign_assertions=None, alg='sha256', encrypt_for=None, keyinfo='x509', block='aes128', transport='oaep',
           post_assertion=None, post_response=None):
    """render + sign (+ encrypt).  sign_response / sign_assertions: pool key index or None.
    post_assertion(xml, i) / post_response(xml): hooks applied to the signed text (corruption, mutation) before encryption."""
    rendered = []
    for i, a in enumerate(a_list):
        a = dict(a)
        if sign_assertions is not None:
            ki = ('x509', world.cert_body(sign_assertions)) if keyinfo == 'x509' else keyinfo
            a['signature'] = sig_template(a['id'], alg, ki)
        x = assertion_xml(a)
        if sign_assertions is not None:
            x = sign(x, ASSERTION_NODE, a['id'], sign_assertions)
        if post_assertion:
            x = post_assertion(x, i)
        rendered.append(x)
    r = dict(r)
    if encrypt_for is not None:
        r['assertions'] = ['<saml:EncryptedAssertion>%s</saml:EncryptedAssertion>' % x for x in rendered]
    else:
        r['assertions'] = rendered
    # ready-made assertion elements (e.g. an EncryptedAssertion cut out of another document) placed before / after the rendered ones
    r['assertions'] = list(r.get('extra_assertions_first', [])) + r['assertions'] + list(r.get('extra_assertions_last', []))
    if sign_response is not None:
        ki = ('x509', world.cert_body(sign_response)) if keyinfo == 'x509' else keyinfo
        r['signature'] = sig_template(r['id'], alg, ki)
    doc = response_xml(r)
    if encrypt_for is not None:
        for _ in rendered:
            doc = encrypt_assertions(doc, encrypt_for, block, transport)
    if sign_response is not None:
        doc = sign(doc, RESPONSE_NODE, r['id'], sign_response)
    if post_response:
        doc = post_response(doc)
    return doc


# ------------------------------------------------------------------ metadata templates
MD = 'urn:oasis:names:tc:SAML:2.0:metadata'


def key_descriptors(keys):
    """keys: [(use or None, pool index or [indices])]"""
    out = []
    for use, idx in keys:
        if idx == 'keyname':
            # a key descriptor that names its key instead of carrying a certificate (schema-valid; contributes no certificate)
            out.append('<md:KeyDescriptor%s><ds:KeyInfo xmlns:ds="%s"><ds:KeyName>named-key</ds:KeyName></ds:KeyInfo></md:KeyDescriptor>' % (_attrs([('use', use)]), DS))
            continue
        if idx == 'expired':
            # a certificate whose validity period is over (fixtures/keys/rsa-expired.crt): still the key the metadata publishes for the entity
            with open(world.crt(0).replace('k0.crt', 'rsa-expired.crt')) as f:
                body = ''.join(l.strip() for l in f if 'CERTIFICATE' not in l)
            out.append('<md:KeyDescriptor%s><ds:KeyInfo xmlns:ds="%s"><ds:X509Data><ds:X509Certificate>%s</ds:X509Certificate></ds:X509Data></ds:KeyInfo></md:KeyDescriptor>'
                       % (_attrs([('use', use)]), DS, body))
            continue
        if idx == 'damaged':
            # a certificate the tool cannot load (truncated DER): contributes no usable key
            out.append('<md:KeyDescriptor%s><ds:KeyInfo xmlns:ds="%s"><ds:X509Data><ds:X509Certificate>%s</ds:X509Certificate></ds:X509Data></ds:KeyInfo></md:KeyDescriptor>'
                       % (_attrs([('use', use)]), DS, world.cert_body(9)[:400]))
            continue
        idxs = idx if isinstance(idx, (list, tuple)) else [idx]
        certs = ''.join('<ds:X509Data><ds:X509Certificate>%s</ds:X509Certificate></ds:X509Data>' % world.cert_body(i) for i in idxs)
        out.append('<md:KeyDescriptor%s><ds:KeyInfo xmlns:ds="%s">%s</ds:KeyInfo></md:KeyDescriptor>' % (_attrs([('use', use)]), DS, certs))
    return ''.join(out)


def endpoints(tag, eps):
    """eps: [(binding, location[, index[, is_default]])]"""
    out = []
    for ep in eps:
        b, loc = ep[0], ep[1]
        idx = ep[2] if len(ep) > 2 else None
        dflt = ep[3] if len(ep) > 3 else None
        out.append('<md:%s%s/>' % (tag, _attrs([('Binding', b), ('Location', loc), ('index', None if idx is None else str(idx)),
                                                  ('isDefault', None if dflt is None else ('true' if dflt else 'false'))])))
    return ''.join(out)


def idp_descriptor(e):
    return ('<md:IDPSSODescriptor%s>%s%s%s%s</md:IDPSSODescriptor>' % (
        _attrs([('protocolSupportEnumeration', e.get('protocols', SAMLP)), ('WantAuthnRequestsSigned', e.get('want_authn_requests_signed'))]),
        key_descriptors(e.get('keys', [])), endpoints('ArtifactResolutionService', e.get('ars', [])), endpoints('SingleLogoutService', e.get('slo', [])),
        endpoints('SingleSignOnService', e.get('sso', [('urn:oasis:names:tc:SAML:2.0:bindings:HTTP-Redirect', 'https://idp.example/sso')]))))


def sp_descriptor(e):
    acs_services = ''
    for i, svc in enumerate(e.get('attribute_consuming', [])):
        reqs = ''.join('<md:RequestedAttribute%s>%s</md:RequestedAttribute>' % (
            _attrs([('Name', r['name']), ('NameFormat', r.get('name_format')), ('FriendlyName', r.get('friendly_name')),
                    ('isRequired', r['required_spelling'] if r.get('required_spelling') is not None else (None if r.get('required') is None else ('true' if r['required'] else 'false')))]),
            ''.join('<saml:AttributeValue xmlns:saml="%s">%s</saml:AttributeValue>' % (SAML, _esc(v)) for v in r.get('values', []))) for r in svc['requested'])
        acs_services += '<md:AttributeConsumingService index="%d"%s><md:ServiceName xml:lang="en">svc%d</md:ServiceName>%s</md:AttributeConsumingService>' % (
            svc.get('index', i), _attrs([('isDefault', None if svc.get('default') is None else ('true' if svc['default'] else 'false'))]), i, reqs)
    return ('<md:SPSSODescriptor%s>%s%s%s%s%s%s</md:SPSSODescriptor>' % (
        _attrs([('protocolSupportEnumeration', e.get('protocols', SAMLP)), ('AuthnRequestsSigned', e.get('authn_requests_signed')),
                ('WantAssertionsSigned', e.get('want_assertions_signed'))]),
        e.get('sp_extensions', ''),
        key_descriptors(e.get('keys', [])), endpoints('SingleLogoutService', e.get('slo', [])), endpoints('ManageNameIDService', e.get('mnid', [])),
        endpoints('AssertionConsumerService', e.get('acs', [])), acs_services))


def entity_xml(e):
    """e: {'entityid', 'valid_until', 'idp': {...} | None, 'sp': {...} | None, 'aa': {...}, 'extensions': xml}"""
    body = ''
    if e.get('extensions'):
        body += '<md:Extensions>%s</md:Extensions>' % e['extensions']
    if e.get('idp') is not None:
        body += idp_descriptor(e['idp'])
    if e.get('sp') is not None:
        body += sp_descriptor(e['sp'])
    for extra in e.get('more_sp', []):
        body += sp_descriptor(extra)          # an entity may carry several descriptors of one role
    if e.get('aa') is not None:
        a = e['aa']
        body += '<md:AttributeAuthorityDescriptor protocolSupportEnumeration="%s">%s%s</md:AttributeAuthorityDescriptor>' % (
            a.get('protocols', SAMLP), key_descriptors(a.get('keys', [])), endpoints('AttributeService', a.get('attribute_service', [])))
    return '<md:EntityDescriptor xmlns:md="%s"%s>%s</md:EntityDescriptor>' % (
        MD, _attrs([('entityID', e['entityid']), ('validUntil', e.get('valid_until')), ('ID', e.get('id'))]), body)


def entities_xml(entities, valid_until=None, name=None, id=None, signature=''):
    return '<md:EntitiesDescriptor xmlns:md="%s"%s>%s%s</md:EntitiesDescriptor>' % (
        MD, _attrs([('validUntil', valid_until), ('Name', name), ('ID', id)]), signature, ''.join(entity_xml(e) for e in entities))


# ------------------------------------------------------------------ requests
def authn_request_xml(q):
    out = ['<samlp:AuthnRequest xmlns:samlp="%s" xmlns:saml="%s"%s>' % (
        SAMLP, SAML, _attrs([('ID', q['id']), ('Version', q.get('version', '2.0')), ('IssueInstant', q.get('issue_instant')),
                             ('Destination', q.get('destination')), ('AssertionConsumerServiceURL', q.get('acs_url')),
                             ('AssertionConsumerServiceIndex', q.get('acs_index')), ('ProtocolBinding', q.get('protocol_binding')),
                             ('ForceAuthn', q.get('force_authn')), ('IsPassive', q.get('is_passive')), ('ProviderName', q.get('provider_name'))]))]
    if q.get('issuer') is not None:
        out.append('<saml:Issuer%s>%s</saml:Issuer>' % (_attrs([('Format', q.get('issuer_format', ENTITY))]), _esc(q['issuer'])))
    if q.get('signature'):
        out.append(q['signature'])
    if q.get('extensions'):
        out.append('<samlp:Extensions>%s</samlp:Extensions>' % q['extensions'])
    if q.get('name_id_policy') is not None:
        p = q['name_id_policy']
        out.append('<samlp:NameIDPolicy%s/>' % _attrs([('Format', p.get('format')), ('AllowCreate', p.get('allow_create')), ('SPNameQualifier', p.get('sp_name_qualifier'))]))
    out.append('</samlp:AuthnRequest>')
    return ''.join(out)


def logout_request_xml(q):
    out = ['<samlp:LogoutRequest xmlns:samlp="%s" xmlns:saml="%s"%s>' % (
        SAMLP, SAML, _attrs([('ID', q['id']), ('Version', q.get('version', '2.0')), ('IssueInstant', q.get('issue_instant')),
                             ('Destination', q.get('destination')), ('Reason', q.get('reason')), ('NotOnOrAfter', q.get('not_on_or_after'))]))]
    if q.get('issuer') is not None:
        out.append('<saml:Issuer%s>%s</saml:Issuer>' % (_attrs([('Format', q.get('issuer_format', ENTITY))]), _esc(q['issuer'])))
    if q.get('signature'):
        out.append(q['signature'])
    out.append(name_id_xml(q.get('name_id', {'text': 'subject-0001', 'format': TRANSIENT})))
    for s in q.get('session_index', []):
        out.append('<samlp:SessionIndex>%s</samlp:SessionIndex>' % _esc(s))
    out.append('</samlp:LogoutRequest>')
    return ''.join(out)


def attribute_query_xml(q):
    out = ['<samlp:AttributeQuery xmlns:samlp="%s" xmlns:saml="%s"%s>' % (
        SAMLP, SAML, _attrs([('ID', q['id']), ('Version', q.get('version', '2.0')), ('IssueInstant', q.get('issue_instant')), ('Destination', q.get('destination'))]))]
    if q.get('issuer') is not None:
        out.append('<saml:Issuer%s>%s</saml:Issuer>' % (_attrs([('Format', q.get('issuer_format', ENTITY))]), _esc(q['issuer'])))
    if q.get('signature'):
        out.append(q['signature'])
    out.append('<saml:Subject>%s</saml:Subject>' % name_id_xml(q.get('name_id', {'text': 'subject-0001', 'format': TRANSIENT})))
    for at in q.get('attributes', []):
        out.append('<saml:Attribute%s/>' % _attrs([('Name', at['name']), ('NameFormat', at.get('name_format')), ('FriendlyName', at.get('friendly_name'))]))
    out.append('</samlp:AttributeQuery>')
    return ''.join(out)


def deflate_b64(xml):
    import zlib
    return base64.b64encode(zlib.compress(xml.encode('utf-8'))[2:-4]).decode('ascii')


def soap_envelope(xml):
    return '<soapenv:Envelope xmlns:soapenv="http://schemas.xmlsoap.org/soap/envelope/"><soapenv:Body>%s</soapenv:Body></soapenv:Envelope>' % xml


def encrypt_raw(plaintext, cert_idx, typ='Element', enc_id='ED2'):
    """EncryptedData element (string) whose plaintext is the given text (any node sequence): AES-128-CBC + RSA-OAEP for pool certificate cert_idx.
    Used to build layered / multi-node ciphertexts that the tool's own --encrypt (one element) cannot produce."""
    import os as _os
    from cryptography import x509
    from cryptography.hazmat.primitives import hashes
    from cryptography.hazmat.primitives.asymmetric import padding
    from cryptography.hazmat.primitives.ciphers import Cipher, algorithms, modes
    data = plaintext if isinstance(plaintext, bytes) else plaintext.encode('utf-8')
    key, iv = _os.urandom(16), _os.urandom(16)
    padn = 16 - (len(data) % 16)
    padded = data + b'\x00' * (padn - 1) + bytes([padn])
    enc = Cipher(algorithms.AES(key), modes.CBC(iv)).encryptor()
    ct = iv + enc.update(padded) + enc.finalize()
    with open(world.crt(cert_idx), 'rb') as f:
        pub = x509.load_pem_x509_certificate(f.read()).public_key()
    ek = pub.encrypt(key, padding.OAEP(mgf=padding.MGF1(hashes.SHA1()), algorithm=hashes.SHA1(), label=None))
    b = lambda x: base64.b64encode(x).decode('ascii')
    tattr = '' if typ is None else ' Type="http://www.w3.org/2001/04/xmlenc#%s"' % typ      # without Type the decryptor hands back the raw octets
    return ('<xenc:EncryptedData xmlns:xenc="%s" Id="%s"%s><xenc:EncryptionMethod Algorithm="%saes128-cbc"/>'
            '<ds:KeyInfo xmlns:ds="%s"><xenc:EncryptedKey Id="%s-K"><xenc:EncryptionMethod Algorithm="%srsa-oaep-mgf1p"/><xenc:CipherData><xenc:CipherValue>%s</xenc:CipherValue>'
            '</xenc:CipherData></xenc:EncryptedKey></ds:KeyInfo><xenc:CipherData><xenc:CipherValue>%s</xenc:CipherValue></xenc:CipherData></xenc:EncryptedData>') % (
        XENC, enc_id, tattr, XENC, DS, enc_id, XENC, b(ek), b(ct))
