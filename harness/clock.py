"""Frozen clock (DESIGN.md 2.4): rebinds the module globals `time` / `datetime` inside loaded
saml2_tophat modules to proxies whose "now" is held by the harness.  Nothing global is patched."""
import sys, time as _time, datetime as _dt, types


class Clock(object):
    now = 1700000000

CLOCK = Clock()


class FakeTime(types.ModuleType):
    def __init__(self):
        types.ModuleType.__init__(self, 'time')

    def __getattr__(self, name):
        return getattr(_time, name)

    def time(self):
        return float(CLOCK.now)

    def gmtime(self, secs=None):
        return _time.gmtime(CLOCK.now if secs is None else secs)

    def localtime(self, secs=None):
        return _time.localtime(CLOCK.now if secs is None else secs)


class FakeDT(_dt.datetime):
    @classmethod
    def utcnow(cls):
        return _dt.datetime.utcfromtimestamp(CLOCK.now)

    @classmethod
    def now(cls, tz=None):
        return _dt.datetime.fromtimestamp(CLOCK.now, tz)


class FakeDTModule(types.ModuleType):
    def __init__(self):
        types.ModuleType.__init__(self, 'datetime')
        self.datetime = FakeDT

    def __getattr__(self, name):
        return getattr(_dt, name)


_FT = FakeTime()
_FDM = FakeDTModule()


def install():
    """Rebind in every loaded saml2_tophat module; returns number of rebinds (idempotent)."""
    import warnings
    warnings.filterwarnings('ignore', category=DeprecationWarning)
    n = 0
    for name, mod in list(sys.modules.items()):
        if mod is None or not name.startswith('saml2_tophat'):
            continue
        if getattr(mod, 'time', None) is _time:
            mod.time = _FT; n += 1
        if getattr(mod, 'datetime', None) is _dt.datetime:
            mod.datetime = FakeDT; n += 1
        if getattr(mod, 'datetime', None) is _dt:
            mod.datetime = _FDM; n += 1
    return n


def set_now(t):
    CLOCK.now = int(t)


def now():
    return CLOCK.now


class tz(object):
    """context manager: run with the process time zone set to a POSIX TZ string (instants are UTC whatever the local zone is)"""
    def __init__(self, name):
        self.name = name

    def __enter__(self):
        import os, time as _t
        self.old = os.environ.get('TZ')
        if self.name:
            os.environ['TZ'] = self.name
            _t.tzset()
        return self

    def __exit__(self, *a):
        import os, time as _t
        if self.name:
            if self.old is None:
                os.environ.pop('TZ', None)
            else:
                os.environ['TZ'] = self.old
            _t.tzset()
