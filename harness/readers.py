"""Independent readers used as oracles (DESIGN 2.3): identity projection of assertions from raw XML (ElementTree) and from
library objects (plain attribute access), and the signature-coverage predicate of C01 (digests the element itself; no ID
lookup, no node search)."""
import base64
from xml.dom import minidom, Node
from xml.etree import ElementTree as ET

A = '{urn:oasis:names:tc:SAML:2.0:assertion}'
P = '{urn:oasis:names:tc:SAML:2.0:protocol}'
SAML = 'urn:oasis:names:tc:SAML:2.0:assertion'
SAMLP = 'urn:oasis:names:tc:SAML:2.0:protocol'
DS = 'http://www.w3.org/2000/09/xmldsig#'
EXC = 'http://www.w3.org/2001/10/xml-exc-c14n#'
ENVELOPED = DS + 'enveloped-signature'


def st(x):
    return (x or '').strip()


# ------------------------------------------------------------------ projections
SCD_ATTRS = ('InResponseTo', 'NotBefore', 'NotOnOrAfter', 'Recipient', 'Address')
COND_ATTRS = ('NotBefore', 'NotOnOrAfter')
AUTHN_ATTRS = ('AuthnInstant', 'SessionIndex', 'SessionNotOnOrAfter')


def _known(attrib, names):
    # only the attributes the schema declares take part in the projection (foreign attributes are extension content on the object side)
    return tuple(sorted((k, v) for k, v in attrib.items() if k in names))


def raw_proj(e):
    """identity projection of an Assertion element (ElementTree)"""
    nid = e.find(A + 'Subject/' + A + 'NameID')
    cond = e.find(A + 'Conditions')
    return {
        'id': e.get('ID'), 'ver': e.get('Version'), 'ii': e.get('IssueInstant'), 'issuer': st(e.findtext(A + 'Issuer')),
        'nameid': None if nid is None else (st(nid.text), nid.get('Format'), nid.get('NameQualifier'), nid.get('SPNameQualifier'), nid.get('SPProvidedID')),
        'scd': sorted((sc.get('Method'), _known(sc.find(A + 'SubjectConfirmationData').attrib if sc.find(A + 'SubjectConfirmationData') is not None else {}, SCD_ATTRS))
                      for sc in e.findall(A + 'Subject/' + A + 'SubjectConfirmation')),
        'cond': None if cond is None else (_known(cond.attrib, COND_ATTRS), sorted(tuple(sorted(st(a.text) for a in ar.findall(A + 'Audience')))
                                                                                       for ar in cond.findall(A + 'AudienceRestriction'))),
        'authn': sorted((_known(a.attrib, AUTHN_ATTRS), st(a.findtext(A + 'AuthnContext/' + A + 'AuthnContextClassRef'))) for a in e.findall(A + 'AuthnStatement')),
        'attrs': sorted((at.get('Name'), at.get('NameFormat'), tuple(st(v.text) for v in at.findall(A + 'AttributeValue')))
                        for s in e.findall(A + 'AttributeStatement') for at in s.findall(A + 'Attribute')),
    }


def _attrs_of(o):
    return tuple(sorted((k, getattr(o, m)) for k, (m, t, r) in type(o).c_attributes.items() if getattr(o, m) is not None))


def obj_proj(a):
    """the same projection from a library Assertion object"""
    nid = a.subject.name_id if a.subject else None
    return {
        'id': a.id, 'ver': a.version, 'ii': a.issue_instant, 'issuer': st(a.issuer.text) if a.issuer else '',
        'nameid': None if nid is None else (st(nid.text), nid.format, nid.name_qualifier, nid.sp_name_qualifier, nid.sp_provided_id),
        'scd': sorted((sc.method, _attrs_of(sc.subject_confirmation_data) if sc.subject_confirmation_data else ()) for sc in (a.subject.subject_confirmation if a.subject else [])),
        'cond': None if a.conditions is None else (_attrs_of(a.conditions), sorted(tuple(sorted(st(x.text) for x in ar.audience)) for ar in a.conditions.audience_restriction)),
        'authn': sorted((_attrs_of(s), st(s.authn_context.authn_context_class_ref.text) if s.authn_context and s.authn_context.authn_context_class_ref else '')
                        for s in a.authn_statement),
        'attrs': sorted((at.name, at.name_format, tuple(st(v.text) for v in at.attribute_value)) for s in a.attribute_statement for at in s.attribute),
    }


def response_proj_raw(root):
    sc = root.find(P + 'Status/' + P + 'StatusCode')
    return {'id': root.get('ID'), 'irt': root.get('InResponseTo'), 'dest': root.get('Destination'), 'issuer': st(root.findtext(A + 'Issuer')),
            'status': None if sc is None else sc.get('Value'), 'ver': root.get('Version')}


def response_proj_obj(r):
    return {'id': r.id, 'irt': r.in_response_to, 'dest': r.destination, 'issuer': st(r.issuer.text) if r.issuer else '',
            'status': r.status.status_code.value if r.status and r.status.status_code else None, 'ver': r.version}


# ------------------------------------------------------------------ signature coverage (independent of xmlsec node search)
def _elems(n):
    return [c for c in n.childNodes if c.nodeType == Node.ELEMENT_NODE]


def _is(e, ns, name):
    return e.nodeType == Node.ELEMENT_NODE and e.namespaceURI == ns and e.localName == name


def self_signed(el, pubkeys):
    """True iff `el` directly carries exactly one ds:Signature whose single Reference is '#'+el's own ID, with only the enveloped and
    exclusive-c14n transforms, whose digest matches el's present content and whose SignatureValue verifies under one of pubkeys."""
    import emul, c14n
    from cryptography.hazmat.primitives.asymmetric import padding
    sigs = [c for c in _elems(el) if _is(c, DS, 'Signature')]
    if len(sigs) != 1 or not el.hasAttribute('ID'):
        return False
    sig = sigs[0]
    try:
        si, sv, ki, cm, sm, refs = emul.parse_signature(sig)
    except Exception:
        return False
    if len(refs) != 1 or refs[0].getAttribute('URI') != '#' + el.getAttribute('ID'):
        return False
    ref = refs[0]
    trs = [c for c in _elems(ref) if _is(c, DS, 'Transforms')]
    algs = [t.getAttribute('Algorithm') for t in (_elems(trs[0]) if trs else [])]
    if sorted(algs) != sorted([ENVELOPED, EXC]) and algs != [ENVELOPED] + [EXC] and not (set(algs) <= {ENVELOPED, EXC, EXC + 'WithComments'} and ENVELOPED in algs):
        return False
    try:
        h, dv = emul.ref_parts(ref)
        incl = ()
        for t in _elems(trs[0]):
            for c in _elems(t):
                if c.localName == 'InclusiveNamespaces':
                    incl = tuple(c.getAttribute('PrefixList').split())
        data = c14n.canonicalize(el, exclusive=True, inclusive_prefixes=incl, skip=sig)
        if base64.b64decode(emul.text_of(dv)) != emul.digest(h, data):
            return False
        hcls = emul.SIGALGS.get(sm.getAttribute('Algorithm'))
        if hcls is None:
            return False
        sidata = emul.apply_c14n(cm.getAttribute('Algorithm'), si, None, None)
        sigval = base64.b64decode(emul.text_of(sv))
    except Exception:
        return False
    for k in pubkeys:
        try:
            k.verify(sigval, sidata, padding.PKCS1v15(), hcls())
            return True
        except Exception:
            continue
    return False


def et_of(node):
    """ElementTree element for a minidom element (via serialisation with in-scope namespaces)"""
    import c14n
    return ET.fromstring(c14n.canonicalize(node, exclusive=False))


def pubkey(idx):
    from cryptography import x509
    from harness import world
    with open(world.crt(idx), 'rb') as f:
        return x509.load_pem_x509_certificate(f.read()).public_key()
