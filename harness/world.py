"""World builder (DESIGN 2.2): SP / IdP entities from plain-data specs, metadata exchanged as XML, keys from
fixtures/keys, the xmlsec1 stand-in as `xmlsec_binary` (real process) or in-process through a Popen shim."""
import os, sys, copy
from harness.runner import VERIF

KEYS = os.path.join(VERIF, 'fixtures', 'keys')
XMLSEC = os.path.join(VERIF, 'tools', 'bin', 'xmlsec1')
POST = 'urn:oasis:names:tc:SAML:2.0:bindings:HTTP-POST'
REDIRECT = 'urn:oasis:names:tc:SAML:2.0:bindings:HTTP-Redirect'
SOAP = 'urn:oasis:names:tc:SAML:2.0:bindings:SOAP'
ARTIFACT = 'urn:oasis:names:tc:SAML:2.0:bindings:HTTP-Artifact'
PAOS = 'urn:oasis:names:tc:SAML:2.0:bindings:PAOS'

TOOL_LOG = []          # (command, returncode) of every tool invocation seen by the in-process shim


def key(i):
    return os.path.join(KEYS, 'k%d.key' % i)


def crt(i):
    return os.path.join(KEYS, 'k%d.crt' % i)


def cert_body(i):
    with open(crt(i)) as f:
        return ''.join(l.strip() for l in f if 'CERTIFICATE' not in l)


class _FakePopen(object):
    """Stands in for subprocess.Popen inside saml2_tophat.sigver / algsupport: runs the stand-in's main()."""
    hook = None        # optional callable(argv) -> (rc, out, err) or None (used by fault injection)

    def __init__(self, com_list, stderr=None, stdout=None, **kw):
        import emul
        res = None
        if _FakePopen.hook is not None:
            res = _FakePopen.hook(list(com_list))
        if res is None:
            res = emul.main(list(com_list))
        self.returncode, self._out, self._err = res
        cmd = [a for a in com_list[1:2]]
        TOOL_LOG.append((cmd[0] if cmd else '', self.returncode))
        if len(TOOL_LOG) > 10000:
            del TOOL_LOG[:5000]

    def communicate(self, *a, **kw):
        return self._out, self._err


def install_inprocess_tool():
    """rebinding of the name Popen in the two modules that start the tool; False if the names are gone."""
    ok = False
    try:
        from saml2_tophat import sigver, algsupport
    except Exception:
        return False
    for mod in (sigver, algsupport):
        if hasattr(mod, 'Popen'):
            mod.Popen = _FakePopen
            ok = True
    return ok


def uninstall_inprocess_tool():
    import subprocess
    from saml2_tophat import sigver, algsupport
    for mod in (sigver, algsupport):
        if hasattr(mod, 'Popen'):
            mod.Popen = subprocess.Popen


def sp_conf(spec, metadata_xml=()):
    """spec keys: entityid, acs [(url, binding[, index])], slo [(url, binding)], key, enc_keys [i..], plus SP options."""
    sp = {'endpoints': {'assertion_consumer_service': [tuple(e) for e in spec['acs']]}}
    if spec.get('slo'):
        sp['endpoints']['single_logout_service'] = [tuple(e) for e in spec['slo']]
    for k in ('want_response_signed', 'want_assertions_signed', 'want_assertions_or_response_signed', 'allow_unsolicited',
              'authn_requests_signed', 'logout_requests_signed', 'required_attributes', 'optional_attributes', 'name_id_format',
              'allow_unknown_attributes', 'requested_attribute_name_format', 'hide_assertion_consumer_service', 'name', 'valid_destination_regex'):
        if k in spec:
            sp[k] = spec[k]
    conf = {'entityid': spec['entityid'], 'service': {'sp': sp}, 'xmlsec_binary': XMLSEC,
            'key_file': key(spec.get('key', 0)), 'cert_file': crt(spec.get('key', 0)),
            'metadata': {'inline': list(metadata_xml)}}
    if spec.get('enc_keys'):
        conf['encryption_keypairs'] = [{'key_file': key(i), 'cert_file': crt(i)} for i in spec['enc_keys']]
    for k in ('accepted_time_diff', 'only_use_keys_in_metadata', 'valid_for', 'entity_category', 'id_attr_name'):
        if k in spec:
            conf[k] = spec[k]
    return conf


def idp_conf(spec, metadata_xml=()):
    idp = {'endpoints': {'single_sign_on_service': [tuple(e) for e in spec.get('sso', [('https://idp.verif.example/sso', REDIRECT), ('https://idp.verif.example/sso/post', POST)])]},
           'name': spec.get('name', 'Verif IdP')}
    if spec.get('slo'):
        idp['endpoints']['single_logout_service'] = [tuple(e) for e in spec['slo']]
    for k in ('policy', 'want_authn_requests_signed', 'sign_response', 'sign_assertion', 'encrypt_assertion', 'scope', 'name_id_format',
              'want_authn_requests_only_with_valid_cert', 'subject_data', 'session_storage', 'domain', 'name_qualifier',
              'verify_encrypt_cert_assertion', 'verify_encrypt_cert_advice'):
        if k in spec:
            idp[k] = spec[k]
    conf = {'entityid': spec['entityid'], 'service': {'idp': idp}, 'xmlsec_binary': XMLSEC,
            'key_file': key(spec.get('key', 1)), 'cert_file': crt(spec.get('key', 1)),
            'metadata': {'inline': list(metadata_xml)}}
    if spec.get('aa'):
        conf['service']['aa'] = {'endpoints': {'attribute_service': [tuple(e) for e in spec['aa']]}, 'policy': spec.get('policy', {}), 'name': 'Verif AA'}
        if 'policy' not in spec:
            del conf['service']['aa']['policy']
    for k in ('accepted_time_diff', 'only_use_keys_in_metadata', 'valid_for', 'entity_category', 'id_attr_name'):
        if k in spec:
            conf[k] = spec[k]
    return conf


def metadata_from_conf(confdict, kind):
    """metadata XML generated by the library from a configuration (library path: metadata.entity_descriptor)."""
    from saml2_tophat.config import SPConfig, IdPConfig
    from saml2_tophat.metadata import entity_descriptor
    c = (SPConfig() if kind == 'sp' else IdPConfig()).load(copy.deepcopy(dict(confdict, metadata={'inline': []})))
    return str(entity_descriptor(c))


def make_sp(confdict, config_class='sp'):
    """config_class: 'sp' = SPConfig (usual), 'generic' = the role-neutral Config (what a combined proxy entity is loaded with)"""
    from saml2_tophat.config import SPConfig, Config
    from saml2_tophat.client import Saml2Client
    cls = {'sp': SPConfig, 'generic': Config}[config_class]
    return Saml2Client(config=cls().load(copy.deepcopy(confdict)))


def make_idp(confdict):
    from saml2_tophat.config import IdPConfig
    from saml2_tophat.server import Server
    return Server(config=IdPConfig().load(copy.deepcopy(confdict)))


DEFAULT_SP = {'entityid': 'https://sp.verif.example/sp', 'acs': [('https://sp.verif.example/acs/post', POST), ('https://sp.verif.example/acs/redirect', REDIRECT)],
              'slo': [('https://sp.verif.example/slo', REDIRECT)], 'key': 0, 'enc_keys': [2, 3]}
DEFAULT_IDP = {'entityid': 'https://idp.verif.example/idp', 'key': 1,
               'slo': [('https://idp.verif.example/slo', REDIRECT), ('https://idp.verif.example/slo/soap', SOAP)]}


def pair(sp_spec=None, idp_spec=None, inprocess=True):
    """an SP and an IdP configured from each other's *generated* metadata."""
    if inprocess:
        install_inprocess_tool()
    sp_spec = dict(DEFAULT_SP, **(sp_spec or {}))
    idp_spec = dict(DEFAULT_IDP, **(idp_spec or {}))
    spc = sp_conf(sp_spec)
    idc = idp_conf(idp_spec)
    sp_md = metadata_from_conf(spc, 'sp')
    idp_md = metadata_from_conf(idc, 'idp')
    sp = make_sp(sp_conf(sp_spec, [idp_md]))
    idp = make_idp(idp_conf(idp_spec, [sp_md]))
    return sp, idp, sp_md, idp_md
