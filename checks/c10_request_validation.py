"""C10 - incoming requests are validated before an IdP or SP acts on them.

Valid requests of each type (AuthnRequest, LogoutRequest, AttributeQuery at an IdP; LogoutRequest at an SP) are rendered by
the harness in every binding encoding, signed or not, then mutated (field edits, destination swap, stale / future
IssueInstant, wrapping, wrong root element, other request type, truncated / garbled encodings, mutation scripts over signed
requests).  Whenever the receiver hands a request object to the application, independent readers must confirm every clause
of the statement on the raw document."""
import base64, zlib
from xml.dom import minidom
from harness.runner import Part, Violation
from harness import build, world, clock, spside, xmlmut, readers

PROPERTY = 'C10'
LEVEL = 'exploration'
RULE = ('Hypothesis: request type {AuthnRequest, LogoutRequest, AttributeQuery -> IdP; LogoutRequest -> SP} x binding {Redirect, POST, SOAP} x requester {signing key in metadata, encryption-only key in metadata, no key in metadata} x signed {no, issuer key, foreign key} x '
        'receiver {no requirement, want_authn_requests_signed, want_authn_requests_only_with_valid_cert} x Destination {own, foreign, near miss of an own endpoint (suffix, query, case, scheme, prefix), other own endpoint, absent} x IssueInstant offset {0, +-1 h, +-(1 day) +- 2 s, +-30 h, +-10 d, -400 d} x process time zone {UTC, UTC-12, UTC+13} (independent of each other) x mutation {none, missing '
        'required attribute, other request type at this entry point, wrong root element, issuer unknown, truncated or garbled base64 / deflate / envelope layer, 1-3 step tree '
        'mutation script (edit, move, wrap, signature relocation, XSW construction) applied after signing}; plus key roll-over sequences on one long-lived IdP (metadata source re-loaded with another signing key between two signed requests); plus the enumerated catalogue of XSW constructions (original parked in 7 places x 5 ID modes x 4 signature modes x 2 positions x stripped or not) over a signed request of every type and binding. Non-trivial = a mutation or a signature requirement is involved; '
        'distinct = distinct case.')
ASSUMPTIONS = ['xmlsec1 stand-in; frozen clock; signature coverage re-checked with the independent predicate of C01 on the request element',
               'want_authn_requests_only_with_valid_cert is generated without a certificate authority configured (the certificate check then passes trivially; signatures must still verify)']

NOW = spside.NOW
SPE = spside.SP
IDPE = spside.IDP
ENDPOINTS = {
    ('authn', 'redirect'): 'https://idp.verif.example/sso', ('authn', 'post'): 'https://idp.verif.example/sso/post',
    ('logout', 'redirect'): 'https://idp.verif.example/slo', ('logout', 'post'): 'https://idp.verif.example/slo/post', ('logout', 'soap'): 'https://idp.verif.example/slo/soap',
    ('attrq', 'soap'): 'https://idp.verif.example/aa',
    ('sp-logout', 'redirect'): 'https://sp.verif.example/slo', ('sp-logout', 'soap'): 'https://sp.verif.example/slo/soap',
}
NODE = {'authn': build.SAMLP + ':AuthnRequest', 'logout': build.SAMLP + ':LogoutRequest', 'attrq': build.SAMLP + ':AttributeQuery', 'sp-logout': build.SAMLP + ':LogoutRequest'}
ROOT = {'authn': 'AuthnRequest', 'logout': 'LogoutRequest', 'attrq': 'AttributeQuery', 'sp-logout': 'LogoutRequest'}
SPE_ENC = 'https://sp-enconly.verif.example/sp'
SPE_NOKEY = 'https://sp-nokey.verif.example/sp'
SPE2 = 'https://sp-second.verif.example/sp'       # a second requester with a signing key of its own (pool 3)
_ents = {}


def receivers(want_signed):
    if want_signed not in _ents:
        world.install_inprocess_tool()
        sp_md = build.entity_xml({'entityid': SPE, 'sp': {'keys': [('signing', 0)], 'acs': [(world.POST, spside.ACS_POST, 0, True)],
                                                          'slo': [(world.REDIRECT, 'https://sp.verif.example/slo'), (world.SOAP, 'https://sp.verif.example/slo/soap')]}})
        # two more requesters the IdP knows: one whose metadata holds an encryption key only, one without any key descriptor
        sp_md = '<md:EntitiesDescriptor xmlns:md="urn:oasis:names:tc:SAML:2.0:metadata">%s%s%s%s</md:EntitiesDescriptor>' % (
            sp_md,
            build.entity_xml({'entityid': SPE2, 'sp': {'keys': [('signing', 3)], 'acs': [(world.POST, spside.ACS_POST, 0, True)], 'slo': [(world.REDIRECT, 'https://sp.verif.example/slo')]}}),
            build.entity_xml({'entityid': SPE_ENC, 'sp': {'keys': [('encryption', 2)], 'acs': [(world.POST, spside.ACS_POST, 0, True)], 'slo': [(world.REDIRECT, 'https://sp.verif.example/slo')]}}),
            build.entity_xml({'entityid': SPE_NOKEY, 'sp': {'keys': [], 'acs': [(world.POST, spside.ACS_POST, 0, True)], 'slo': [(world.REDIRECT, 'https://sp.verif.example/slo')]}}))
        idp = world.make_idp(world.idp_conf(dict(world.DEFAULT_IDP, want_authn_requests_signed=bool(want_signed) and want_signed != 'only-valid-cert',
                                                 want_authn_requests_only_with_valid_cert=(want_signed == 'only-valid-cert'),
                                                 sso=[(ENDPOINTS[('authn', 'redirect')], world.REDIRECT), (ENDPOINTS[('authn', 'post')], world.POST)],
                                                 slo=[(ENDPOINTS[('logout', 'redirect')], world.REDIRECT), (ENDPOINTS[('logout', 'post')], world.POST), (ENDPOINTS[('logout', 'soap')], world.SOAP)],
                                                 aa=[(ENDPOINTS[('attrq', 'soap')], world.SOAP)]), [sp_md]))
        idp_md = build.entity_xml({'entityid': IDPE, 'idp': {'keys': [('signing', 1)], 'slo': [(world.REDIRECT, 'https://idp.verif.example/slo')]}})
        sp = world.make_sp(world.sp_conf(dict(world.DEFAULT_SP, slo=[(ENDPOINTS[('sp-logout', 'redirect')], world.REDIRECT), (ENDPOINTS[('sp-logout', 'soap')], world.SOAP)]), [idp_md]))
        clock.install()
        _ents[want_signed] = (idp, sp)
    return _ents[want_signed]


MUTS = ['none', 'none', 'none', 'none', 'missing-attr', 'other-type', 'wrong-root', 'issuer-unknown', 'garble', 'script', 'script', 'edit-after-sign']
DMODES = ['own', 'own', 'own', 'own', 'foreign', 'near', 'near', 'other-own', 'absent', 'absent']
OFFSETS = [0, 0, 0, 0, 0, 3600, -3600, -86400 - 2, -86400 + 2, 86400 - 2, 86400 + 2, -10 * 86400, 10 * 86400, -400 * 86400, -30 * 3600, 30 * 3600]
TBS = [('authn', 'redirect'), ('authn', 'post'), ('logout', 'redirect'), ('logout', 'post'), ('logout', 'soap'), ('attrq', 'soap'), ('sp-logout', 'redirect'), ('sp-logout', 'soap'),
       # delivery over a binding for which the receiver has configured no endpoint of that service
       ('authn', 'soap'), ('attrq', 'post'), ('sp-logout', 'post')]


def case_strategy():
    from hypothesis import strategies as st
    tb = st.sampled_from(TBS)
    return st.fixed_dictionaries({'tb': tb.map(list), 'signed': st.sampled_from(['no', 'issuer', 'issuer', 'foreign', 'peer']), 'want_signed': st.sampled_from([False, True, False, True, 'only-valid-cert']), 'mut': st.sampled_from(MUTS),
                                  'dmode': st.sampled_from(DMODES), 'tz': st.sampled_from([None, None, None, None, 'AAA+12', 'BBB-13']), 'sender': st.sampled_from(['std', 'std', 'std', 'second', 'second', 'enc-only', 'no-key']), 'offset': st.sampled_from(OFFSETS), 'near': st.integers(0, 9), 'ii_zone': st.sampled_from([None, None, None, None, '+14:00', '-12:00', '+05:30']),
                                  'attr': st.sampled_from(['ID', 'IssueInstant', 'Version']), 'garble': st.tuples(st.sampled_from(['truncate', 'flip', 'prefix', 'not-b64', 'empty']), st.integers(1, 200)).map(list),
                                  'script': xmlmut.script_strategy(3), 'alg': st.sampled_from(['sha1', 'sha256', 'sha512']),
                                  'edit': st.sampled_from(['ID', 'Destination', 'AssertionConsumerServiceURL', 'Issuer', 'NameID'])})


def render(typ, fields):
    if typ == 'authn':
        return build.authn_request_xml(dict(fields, acs_url=spside.ACS_POST, protocol_binding=world.POST, name_id_policy={'format': build.TRANSIENT, 'allow_create': 'true'}))
    if typ in ('logout', 'sp-logout'):
        return build.logout_request_xml(fields)
    return build.attribute_query_xml(dict(fields, attributes=[{'name': 'urn:oid:2.5.4.42', 'name_format': 'urn:oasis:names:tc:SAML:2.0:attrname-format:uri'}]))


def run(case):
    if case.get('tz'):
        with clock.tz(case['tz']):
            return _run(dict(case, tz=None))
    return _run(case)


def _run(case):
    typ, binding = case['tb']
    idp, sp = receivers(case['want_signed'])
    clock.set_now(NOW)
    sender = IDPE if typ == 'sp-logout' else SPE
    skey = 1 if typ == 'sp-logout' else 0
    trusted = [skey]
    who = case.get('sender', 'std') if typ != 'sp-logout' else 'std'
    if who == 'enc-only':
        sender, skey, trusted = SPE_ENC, 2, []       # signs with the key its metadata lists for encryption only
    elif who == 'no-key':
        sender, skey, trusted = SPE_NOKEY, 0, []
    elif who == 'second':
        sender, skey, trusted = SPE2, 3, [3]
    own = ENDPOINTS.get((typ, binding)) or [v for (t, bb), v in sorted(ENDPOINTS.items()) if t == typ][0]     # no endpoint for this binding: an own endpoint of the service
    mut = case['mut']
    fields = {'id': 'id-q-1', 'issue_instant': build.ts(NOW), 'destination': own, 'issuer': sender}
    dmode = case.get('dmode', 'own')
    fields['issue_instant'] = build.ts(NOW + case['offset'])
    if case.get('ii_zone'):
        # the same instant written with a numeric zone offset instead of Z (local digits = instant + offset)
        z = case['ii_zone']
        secs = (1 if z[0] == '+' else -1) * (int(z[1:3]) * 3600 + int(z[4:6]) * 60)
        fields['issue_instant'] = build.ts(NOW + case['offset'] + secs)[:-1] + z
    if dmode == 'foreign':
        fields['destination'] = 'https://evil.example.net/endpoint'
    elif dmode == 'near':
        near = [own + '2', own + '-staging', own + '/', own + '?x=1', own + '/../admin', own + '.evil.example.net/collect', own.replace('https://', 'https://evil.example.net/?u=https://'),
                own.upper(), own.replace('https://', 'http://'), own[:-1]]
        fields['destination'] = near[case.get('near', 0) % len(near)]
    elif dmode == 'other-own':
        others = [v for (t, b), v in ENDPOINTS.items() if t == typ and b != binding]
        fields['destination'] = others[0] if others else 'https://idp.verif.example/other'
    elif dmode == 'absent':
        fields['destination'] = None
    if mut == 'issuer-unknown':
        fields['issuer'] = 'https://unknown.example.org/entity'
    rtyp = typ
    if mut == 'other-type':
        rtyp = {'authn': 'logout', 'logout': 'authn', 'attrq': 'logout', 'sp-logout': 'authn'}[typ]
    # 'peer': the valid key of another requester the receiver knows (pool 0 is the first SP's, 3 the second's)
    sign_key = {'no': None, 'issuer': skey, 'foreign': 5, 'peer': 0 if skey != 0 else 3}[case['signed']]
    if sign_key is not None:
        fields['signature'] = build.sig_template(fields['id'], case['alg'], ('x509', world.cert_body(sign_key)))
    xml = render(rtyp, fields)
    if mut == 'missing-attr':
        import re
        xml = re.sub(r' %s="[^"]*"' % case['attr'], '', xml, count=1)
    if mut == 'wrong-root':
        xml = xml.replace('samlp:%s' % ROOT[rtyp], 'samlp:ArtifactResolve')
    if sign_key is not None:
        try:
            xml = build.sign(xml, NODE[rtyp] if mut != 'wrong-root' else build.SAMLP + ':ArtifactResolve', fields['id'], sign_key) if 'ID="' in xml.split('>')[0] else xml
        except RuntimeError:
            pass
    labels = []
    if mut == 'script':
        m, labels = xmlmut.mutate(xml, case['script'])
        xml = m or xml
    elif mut == 'xsw':
        m, labels = xmlmut.mutate(xml, [dict(zip('abcdef', case['xsw']), op='xsw')])
        if not m or not labels:
            raise RuntimeError('harness: the XSW construction did not apply to a signed %s' % typ)
        xml = m
    elif mut == 'edit-after-sign':
        e = case['edit']
        if e in ('ID', 'Destination', 'AssertionConsumerServiceURL'):
            xml2 = xml.replace(' %s="' % e, ' %s="x' % e, 1)
        else:
            xml2 = xml.replace('</saml:%s>' % e, 'x</saml:%s>' % e, 1)
        if xml2 != xml:
            labels = ['edit']
        xml = xml2
    # ---- encode
    if binding == 'redirect':
        payload = build.deflate_b64(xml)
    elif binding == 'post':
        payload = build.b64(xml)
    else:
        payload = build.soap_envelope(xml)
    if mut == 'garble':
        how, n = case['garble']
        if how == 'truncate':
            payload = payload[:max(1, len(payload) - n)]
        elif how == 'flip':
            i = n % len(payload)
            payload = payload[:i] + ('A' if payload[i] != 'A' else 'B') + payload[i + 1:]
        elif how == 'prefix':
            payload = 'garbage' + payload
        elif how == 'not-b64':
            payload = payload[:n % len(payload)] + '*!*' + payload[n % len(payload):]
        else:
            payload = ' '
    b = {'redirect': world.REDIRECT, 'post': world.POST, 'soap': world.SOAP}[binding]
    try:
        if typ == 'authn':
            req = idp.parse_authn_request(payload, b)
        elif typ == 'logout':
            req = idp.parse_logout_request(payload, b)
        elif typ == 'attrq':
            req = idp.parse_attribute_query(payload, b)
        else:
            req = sp.parse_logout_request(payload, b)
        err = None
    except Exception as e:
        req, err = None, e
    handed = req is not None and getattr(req, 'message', None) is not None
    want = bool(case['want_signed']) and typ != 'sp-logout'
    pristine = (typ, binding) in ENDPOINTS and not case.get('ii_zone') and who == 'std' and mut == 'none' and dmode in ('own', 'absent') and abs(case['offset']) <= 86400 - 2 and (case['signed'] in ('no', 'issuer')) and not (want and case['signed'] == 'no')
    if binding == 'soap' and case['signed'] != 'no':
        pristine = False    # the SOAP decoder re-serialises the body; signatures over foreign prefixes do not survive it (transport limitation, see C08 known finding)
    mlabel = mut if mut not in ('script', 'xsw') else mut + ':' + '+'.join(sorted(set(l.split('|')[0] for l in labels)) or ['noop'])
    label = '%s%s|%s|%s|dest-%s|%s|%s' % (typ, '' if who == 'std' else '@' + who, binding, mlabel, dmode, 'fresh' if abs(case['offset']) < 86400 else 'stale', 'handed' if handed else 'refused')
    nontrivial = mut != 'none' or dmode != 'own' or case['offset'] != 0 or want or case['signed'] != 'no'
    if not handed:
        if pristine:
            raise Violation('valid-request-refused', '%s over %s (signed=%s, receiver wants signed=%r, %s): refused: %r' % (typ, binding, case['signed'], want, mut, err))
        return label, nontrivial
    # ---- the request was handed to the application: check every clause on the raw document that was sent
    if mut == 'garble':
        # whatever decodes must still satisfy everything below; recover the document the receiver saw
        try:
            raw = zlib.decompress(base64.b64decode(payload), -15).decode('utf-8') if binding == 'redirect' else (base64.b64decode(payload).decode('utf-8') if binding == 'post' else None)
        except Exception:
            raise Violation('garbled-encoding-accepted', '%s over %s: a request object came out of an undecodable payload' % (typ, binding))
        if raw is not None:
            xml = raw
    try:
        dom = minidom.parseString(xml.encode('utf-8'))
    except Exception:
        raise Violation('malformed-accepted', 'request object returned for a document that is not well-formed')
    root = dom.documentElement
    msg = req.message
    if root.namespaceURI != build.SAMLP or root.localName != ROOT[typ]:
        raise Violation('wrong-type-accepted', 'entry point for %s handed over a request although the document element is %s' % (ROOT[typ], root.tagName))
    for a in ('ID', 'Version', 'IssueInstant'):
        if not root.getAttribute(a):
            raise Violation('schema-invalid-accepted', 'request without %s handed to the application' % a)
    if root.getAttribute('Version') != '2.0':
        raise Violation('version-accepted', 'Version %r accepted' % root.getAttribute('Version'))
    dest = root.getAttribute('Destination') if root.hasAttribute('Destination') else None
    own_all = [v for (t, bb), v in ENDPOINTS.items() if t == typ]
    if dest is not None and dest not in own_all:
        raise Violation('foreign-destination-accepted', 'Destination %r is not an endpoint of the receiver for this service (%r)' % (dest, own_all))
    import calendar, re as _re
    m = _re.match(r'^(\d{4})-(\d\d)-(\d\d)T(\d\d):(\d\d):(\d\d)', root.getAttribute('IssueInstant'))
    if not m:
        raise Violation('bad-issue-instant-accepted', 'IssueInstant %r accepted' % root.getAttribute('IssueInstant'))
    ii = calendar.timegm(tuple(int(x) for x in m.groups()) + (0, 0, 0))
    if abs(ii - NOW) > 86400 + 1:
        raise Violation('stale-request-accepted', 'IssueInstant is %+d s from now' % (ii - NOW))
    sigs = [c for c in root.childNodes if c.nodeType == c.ELEMENT_NODE and c.localName == 'Signature']
    if sigs:
        if not readers.self_signed(root, [readers.pubkey(k) for k in trusted]):
            raise Violation('signature-not-covering-request', 'a request carrying a signature was handed over although the request element is not covered by a valid signature of its own '
                            'under the issuer\'s metadata key (mutation %s %r)' % (mut, labels))
        iss = [c for c in root.childNodes if c.nodeType == c.ELEMENT_NODE and c.localName == 'Issuer']
        if not iss or readers.st(''.join(t.data for t in iss[0].childNodes if t.nodeType in (t.TEXT_NODE, t.CDATA_SECTION_NODE))) != sender:
            raise Violation('signed-by-other-issuer', 'signed request accepted for issuer %r' % (iss and iss[0].toxml()))
    elif want:
        raise Violation('unsigned-accepted', 'receiver wants signed requests, an unsigned %s was handed over' % typ)
    if msg.id != root.getAttribute('ID') or (msg.destination or None) != dest:
        raise Violation('fields-differ-from-document', 'request object (%r, %r) differs from the document element (%r, %r)' % (msg.id, msg.destination, root.getAttribute('ID'), dest))
    return label, nontrivial


def known_match(part, case, v):
    if part == 'artifact-resolve':
        return known_match_artres(v)
    return None


def rollover_cases():
    out = []
    for first in (0, 3):
        for second in (0, 3, 4):
            for warm in (True, False):
                for binding in ('post', 'redirect'):
                    if first != second:
                        out.append({'first': first, 'second': second, 'warm': warm, 'binding': binding})
    return out


def run_rollover(case):
    """one long-lived IdP whose metadata source for the SP is re-loaded with another signing key between two messages (key roll-over):
    after the reload only the key the metadata holds *now* authenticates the SP's signed requests"""
    import os
    world.install_inprocess_tool()
    clock.install()
    clock.set_now(NOW)
    path = os.path.join(os.getcwd(), 'sp-md-%d.xml' % os.getpid())

    def write(k):
        with open(path, 'w') as f:
            f.write(build.entity_xml({'entityid': SPE, 'sp': {'keys': [('signing', k)], 'acs': [(world.POST, spside.ACS_POST, 0, True)]}}))
    write(case['first'])
    conf = world.idp_conf(dict(world.DEFAULT_IDP, sso=[(ENDPOINTS[('authn', 'redirect')], world.REDIRECT), (ENDPOINTS[('authn', 'post')], world.POST)]), [])
    conf['metadata'] = {'local': [path]}
    idp = world.make_idp(conf)

    def send(k):
        f = {'id': 'id-q-%d' % k, 'issue_instant': build.ts(NOW), 'destination': ENDPOINTS[('authn', case['binding'])], 'issuer': SPE,
             'signature': build.sig_template('id-q-%d' % k, 'sha256', ('x509', world.cert_body(k)))}
        xml = build.sign(render('authn', f), NODE['authn'], f['id'], k)
        payload = build.b64(xml) if case['binding'] == 'post' else build.deflate_b64(xml)
        try:
            r = idp.parse_authn_request(payload, world.POST if case['binding'] == 'post' else world.REDIRECT)
            return r is not None and getattr(r, 'message', None) is not None
        except Exception:
            return False
    if case['warm'] and not send(case['first']):
        raise Violation('valid-request-refused', 'request signed with the key the metadata holds (k%d) refused' % case['first'])
    write(case['second'])
    idp.metadata.load('local', path)
    if send(case['first']):
        raise Violation('retired-key-accepted', 'after the metadata was re-loaded with key k%d for the SP, a request signed with the retired key k%d was handed over%s'
                        % (case['second'], case['first'], ' (a request under the old key had been verified before the reload)' if case['warm'] else ''))
    if not send(case['second']):
        raise Violation('valid-request-refused', 'after the reload a request signed with the current key k%d is refused' % case['second'])
    return 'rollover|%s' % ('warm' if case['warm'] else 'cold'), True


ARTRES = ('<samlp:ArtifactResolve xmlns:samlp="urn:oasis:names:tc:SAML:2.0:protocol" xmlns:saml="urn:oasis:names:tc:SAML:2.0:assertion" ID="id-ar-1" Version="%s" IssueInstant="%s"%s>'
          '<saml:Issuer>%s</saml:Issuer><samlp:Artifact>AAQAAMh48/1oXIM+sDo7Dh2qMp1HM4IF5DaRNmDj6RdUmllwn9jJHyEgIi8=</samlp:Artifact></samlp:ArtifactResolve>')


def artres_cases():
    return [{'version': v, 'offset': o, 'dest': d} for v in ('2.0', '1.1', '9') for o in (0, -10 * 86400, 400 * 86400) for d in (None, 'own', 'foreign')]


def run_artres(case):
    """ArtifactResolve is a request like the others (sent over SOAP to the artifact resolution service)"""
    idp, sp = receivers(False)
    clock.set_now(NOW)
    dest = {None: '', 'own': ' Destination="https://idp.verif.example/ars"', 'foreign': ' Destination="https://evil.example.net/ars"'}[case['dest']]
    xml = ARTRES % (case['version'], build.ts(NOW + case['offset']), dest, SPE)
    try:
        req = idp.parse_artifact_resolve(build.soap_envelope(xml))
    except Exception:
        req = None
    bad = []
    if case['version'] != '2.0':
        bad.append('Version %r' % case['version'])
    if case['offset']:
        bad.append('IssueInstant %+d days from now' % (case['offset'] // 86400))
    if case['dest'] == 'foreign':
        bad.append('foreign Destination')
    if req is not None and bad:
        raise Violation('artifact-resolve-not-validated', 'an ArtifactResolve with %s was handed to the application' % ', '.join(bad), detail={'entry': 'parse_artifact_resolve'})
    return 'artres|%s|%s' % ('bad' if bad else 'valid', 'handed' if req is not None else 'refused'), bool(bad)


def known_match_artres(v):
    return 'C10-artifact-resolve-not-validated' if v.bucket == 'artifact-resolve-not-validated' else None


def xsw_catalogue(full):
    """every signature-wrapping construction of harness.xmlmut.xsw over a correctly signed request of every type and binding"""
    out = []
    ctx = [(tb, want) for tb in TBS for want in (False, True)]
    n = 0
    for place in range(7):
        for idm in range(5):
            for sgm in range(4):
                for pos in (0, 1):
                    for strip in (0, 1):
                        n += 1
                        # quick tier: every construction under 4 of the 16 (type, binding, requirement) contexts, rotating
                        for k, (tb, want) in enumerate(ctx):
                            if full or (k + n) % 4 == 0:
                                out.append({'tb': list(tb), 'signed': 'issuer', 'want_signed': want, 'mut': 'xsw', 'dmode': 'own', 'offset': 0, 'alg': 'sha256',
                                            'xsw': [0, place, idm, sgm, pos, strip]})
    return out


def parts(tier):
    quick = tier != 'thorough'
    return [Part('artifact-resolve', run_artres, cases=artres_cases, exhaustive=True),
            Part('key-rollover', run_rollover, cases=rollover_cases, exhaustive=True),
            Part('xsw-catalogue', run, cases=lambda: xsw_catalogue(not quick), exhaustive=True),
            Part('requests', run, strategy=case_strategy, examples=4000 if quick else 100000)]
