"""C02 - SP signature requirements decide acceptance exactly as documented (iff).

The full table  8 option settings x {plain, encrypted} x what was signed x which signature is corrupted and how
is enumerated; every row is also run with Hypothesis-generated identities / algorithms / identifiers.  The
oracle is the ten-line reference predicate in harness/models/sigtable.py."""
import itertools
from harness.runner import Part, Violation, Inconclusive
from harness import build, spside, clock, world
from harness.models.sigtable import expected_accept

PROPERTY = 'C02'
LEVEL = 'exploration'
RULE = ('table: 8 settings of (want_response_signed, want_assertions_signed, want_assertions_or_response_signed) x {plain, encrypted} x '
        '{nothing signed; response signed: valid / SignatureValue corrupted / content edited after signing; assertion signed: same three; '
        'both signed: valid / each signature corrupted each way} = 192 rows, enumerated in full; generated: a row drawn uniformly + generated '
        'name id, attribute values, message ids, hash algorithm, client loaded from SPConfig / role-neutral Config, encrypted assertions for a configured key pair / a per-request key (outstanding_certs), issuer metadata with / without a signing key, clear assertion carrying an encrypted advice assertion. Non-trivial = an option is on or a signature is '
        'present; distinct = (row, identity).')
ASSUMPTIONS = ['xmlsec1 stand-in (DESIGN 2.1) verifies/decrypts; documents are built and signed by the harness, not by the IdP code',
               'frozen clock; response otherwise valid (destination, audience, in-response-to, validity windows)']

SHAPES = [('none', None)] + [(s, c) for s in ('R', 'A') for c in (None, 'sigval', 'content')] + \
         [('RA', None)] + [('RA', (w, c)) for w in ('R', 'A') for c in ('sigval', 'content')]


def rows():
    out = []
    for opts in itertools.product((False, True), repeat=3):
        for enc in (False, True):
            for shape, corrupt in SHAPES:
                if shape in ('R', 'A') and corrupt:
                    corrupt = (shape, corrupt)
                # delivered over HTTP-POST or HTTP-Redirect (the SP has an assertion-consumer endpoint for either)
                for binding in ('post', 'redirect'):
                    out.append({'opts': list(opts), 'enc': enc, 'shape': shape, 'corrupt': list(corrupt) if corrupt else None, 'binding': binding})
    return out


def _corrupt_sigval(xml):
    i = xml.index('SignatureValue>') + len('SignatureValue>')
    ch = xml[i]
    return xml[:i] + ('B' if ch != 'B' else 'C') + xml[i + 1:]


def run_row(case):
    row = case
    wrs, was, wors = row['opts']
    ident = case.get('ident') or {}
    now = spside.NOW
    md = None
    if ident.get('idp_keys', 'signing') in ('two-first', 'two-second'):
        # key roll-over layout: the issuer publishes two signing certificates, the key in use is listed first / second
        md = spside.idp_metadata(keys=(('signing', 1), ('signing', 3)) if ident['idp_keys'] == 'two-first' else (('signing', 3), ('signing', 1)))
    elif ident.get('idp_keys', 'signing') != 'signing':
        # the issuer is known, but its metadata holds no signing key (encryption-only descriptor / none at all): no signature of its can be verified
        md = spside.idp_metadata(keys=(('encryption', 1),) if ident['idp_keys'] == 'encryption-only' else ())
    sp = spside.sp_for({'want_response_signed': wrs, 'want_assertions_signed': was, 'want_assertions_or_response_signed': wors}, md=md, config_class=ident.get('config_class', 'sp'))
    clock.set_now(now)
    rid = ident.get('rid', 'id-resp-1')
    n_ass = ident.get('n', 1)
    r, a0 = build.standard(now, rid=rid, aid=ident.get('aid', 'id-a-1'),
                           name_id={'text': ident.get('name', 'subject-0001'), 'format': build.TRANSIENT})
    vals = ident.get('values', ['Alice'])
    redirect = row.get('binding') == 'redirect'
    if redirect:
        r['destination'] = spside.ACS_REDIRECT
        a0['subject']['confirmations'][0]['data']['recipient'] = spside.ACS_REDIRECT
    a0['attributes'] = [{'name': 'urn:oid:2.5.4.42', 'name_format': 'urn:oasis:names:tc:SAML:2.0:attrname-format:uri', 'friendly_name': 'givenName', 'values': vals}]
    idp_keys = ident.get('idp_keys', 'signing')
    if ident.get('enc_advice') and not row['enc']:
        # PEFIM shape: the (clear) assertion carries an encrypted advice assertion, validly signed by the IdP and encrypted by the harness before anything is signed
        inner = dict(a0, id=a0['id'] + '-adv', attributes=[{'name': 'urn:oid:2.5.4.12', 'name_format': 'urn:oasis:names:tc:SAML:2.0:attrname-format:uri', 'friendly_name': 'title', 'values': ['x']}])
        inner.pop('authn', None)
        inner['signature'] = build.sig_template(inner['id'], 'sha256', ('x509', world.cert_body(1)))
        ix = build.sign(build.assertion_xml(inner), build.ASSERTION_NODE, inner['id'], 1)
        a0['advice'] = '<saml:EncryptedAssertion>%s</saml:EncryptedAssertion>' % build.encrypt_raw(ix, 2, enc_id='EDADV')
    if ident.get('plain_advice') and not ident.get('enc_advice'):
        # proxy shape: the assertion carries, in clear inside its Advice, an assertion validly signed by the IdP; that signature is not the outer assertion's own
        inner = dict(a0, id=a0['id'] + '-adv', attributes=[{'name': 'urn:oid:2.5.4.12', 'name_format': 'urn:oasis:names:tc:SAML:2.0:attrname-format:uri', 'friendly_name': 'title', 'values': ['x']}])
        inner.pop('authn', None)
        inner['signature'] = build.sig_template(inner['id'], 'sha256', ('x509', world.cert_body(1)))
        a0['advice'] = build.sign(build.assertion_xml(inner), build.ASSERTION_NODE, inner['id'], 1)
    alist = [a0]
    if n_ass == 2:
        a1 = dict(a0, id=a0['id'] + '-b')
        alist.append(a1)
    shape, corrupt = row['shape'], row['corrupt']
    sign_r = 1 if 'R' in shape else None
    sign_a = 1 if 'A' in shape else None

    def post_assertion(x, i):
        if corrupt and corrupt[0] == 'A' and i == len(alist) - 1:
            if corrupt[1] == 'sigval':
                return _corrupt_sigval(x)
            return x.replace('<saml:Audience>' + spside.SP, '<saml:Audience>' + spside.SP, 1).replace('SessionIndex="sess-1"', 'SessionIndex="sess-2"', 1)
        return x

    def post_response(x):
        if corrupt and corrupt[0] == 'R':
            if corrupt[1] == 'sigval':
                return _corrupt_sigval(x)       # the response's Signature is the first one in the document
            return x.replace('IssueInstant="%s"' % build.ts(now), 'IssueInstant="%s"' % build.ts(now - 1), 1)
        return x
    doc = build.render(r, alist, sign_response=sign_r, sign_assertions=sign_a, alg=ident.get('alg', 'sha256'),
                       encrypt_for=(4 if ident.get('per_request') else 2) if row['enc'] else None, post_assertion=post_assertion, post_response=post_response)
    kw = {}
    if ident.get('per_request'):
        # the assertion is encrypted for a one-time certificate whose private key the application hands over with the outstanding request
        kw['outstanding_certs'] = {'id-req-1': {'key': open(world.key(4)).read(), 'cert': open(world.crt(4)).read()}}
    verdict = spside.deliver(sp, doc, binding=world.REDIRECT if redirect else None, **kw)
    want = expected_accept(wrs, was, wors, 'R' in shape, 'A' in shape, corrupt is None)
    advice_signed = (ident.get('enc_advice') and not row['enc']) or (ident.get('plain_advice') and not ident.get('enc_advice'))
    if idp_keys in ('encryption-only', 'none') and shape != 'none':
        want = False        # a signature that is present cannot verify
    elif idp_keys in ('encryption-only', 'none') and advice_signed:
        # the only signature in the message sits on an assertion inside the Advice, and it cannot be verified (no key): the table of the statement speaks
        # of the response's and the assertion's signatures; whether an unverifiable advice signature sinks the message is not judged (the library refuses
        # when the advice was encrypted and accepts when it is in clear)
        return 'unjudged|advice-signature-unverifiable', False
    got = verdict[0] == 'accept'
    if got and not want:
        raise Violation('accepted-against-table', 'options wrs/was/wors=%r, %s, signed=%s, corrupted=%r: accepted, table says reject'
                        % (row['opts'], 'encrypted' if row['enc'] else 'plain', shape, corrupt))
    if want and not got:
        raise Violation('rejected-against-table', 'options wrs/was/wors=%r, %s, signed=%s, corrupted=%r: rejected (%s: %s), table says accept'
                        % (row['opts'], 'encrypted' if row['enc'] else 'plain', shape, corrupt, verdict[1], verdict[2]))
    if got:
        idn = spside.identity_of(verdict[1])
        if idn['name_id'] != ident.get('name', 'subject-0001') or idn['ava'].get('givenName') != [v.strip() for v in vals]:
            raise Violation('accepted-identity-differs', 'accepted identity %r differs from the signed one' % (idn,))
    nt = any(row['opts']) or shape != 'none'
    return ('accept' if got else 'reject') + '|' + shape + ('|enc' if row['enc'] else '') + ('|corrupt' if corrupt else '') + ('|redirect' if redirect else ''), nt


def generated_strategy():
    from hypothesis import strategies as st
    idc = st.text(alphabet='abcdefghijklmnopqrstuvwxyzABCDEFXYZ0123456789-_.', min_size=1, max_size=20).map(lambda s: '_' + s)
    ident = st.fixed_dictionaries({'rid': idc, 'aid': idc.map(lambda s: s + 'a'), 'name': st.text(alphabet=st.characters(codec='utf-8', exclude_categories=('Cs', 'Cc', 'Zs', 'Zl', 'Zp')), min_size=1, max_size=20),
                                   'values': st.lists(st.text(alphabet=st.characters(codec='utf-8', exclude_categories=('Cs', 'Cc')), min_size=1, max_size=12).map(lambda s: s.strip() or 'v'), min_size=1, max_size=3),
                                   'alg': st.sampled_from(build.HASHES), 'n': st.just(1),
                                   # the client loaded from an SPConfig or from the role-neutral Config; encrypted assertions for a configured key pair or for a per-request key
                                   'config_class': st.sampled_from(['sp', 'sp', 'generic']), 'per_request': st.booleans(),
                                   'idp_keys': st.sampled_from(['signing', 'signing', 'two-first', 'two-second', 'encryption-only', 'none']), 'enc_advice': st.booleans(),
                                   'plain_advice': st.booleans()})
    return st.tuples(st.sampled_from(rows()), ident).map(lambda t: dict(t[0], ident=t[1]))


def parts(tier):
    quick = tier != 'thorough'
    return [
        Part('table', run_row, cases=rows, exhaustive=True, mandatory=['accept|RA|enc', 'reject|RA|enc|corrupt', 'accept|none', 'reject|A|corrupt']),
        Part('generated', run_row, strategy=generated_strategy, examples=1000 if quick else 20000),
    ]
