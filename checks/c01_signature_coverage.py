"""C01 - accepted signed content is exactly what its signature covers.

Validly signed responses (response-, assertion- or both-signed; five RSA-SHA algorithms; plain or encrypted assertion) are
rearranged by generated mutation scripts (harness/xmlmut.py) and delivered to SPs with every signature-requirement
setting.  Whenever the SP accepts, an oracle that does not use pysaml2's parser nor the tool's node search recomputes which
elements are covered by their own valid enveloped signature and requires (a) every assertion / identity the SP holds to come
from covered bytes and (b) every enabled requirement to be met by such an element of the right kind."""
from xml.dom import minidom, Node
from harness.runner import Part, Violation, Inconclusive
from harness import build, spside, clock, world, xmlmut, readers

PROPERTY = 'C01'
LEVEL = 'exploration'
RULE = ('Hypothesis: base document {response signed, assertion signed, both} x 5 hash algorithms x {plain, encrypted} x SP setting (the 7 settings with at least one requirement, '
        'restricted to those the base document satisfies) x mutation script of 1-4 steps over 20 operators (edit, delete, move, copy, wrap, 7-place XSW construction with id/signature '
        'variants, signature move/copy/duplicate/remove, duplicate/swap/rename IDs, Reference retarget/empty/duplicate/remove, transform / KeyInfo removal), applied to the outer '
        'document and to the signed assertion before it is wrapped / encrypted / covered by the response signature; plus the enumerated XSW catalogue (all place x id x signature combinations at both levels). '
        'Non-trivial = the script changed the document and the SP called the tool at least once; distinct = distinct (base, setting, script).')
ASSUMPTIONS = ['xmlsec1 stand-in incl. its first-Signature-in-document-order search below --node-id (DESIGN 2.1); frozen clock',
               'coverage oracle shares exclusive C14N and RSA verification primitives with the stand-in but digests the element itself (no ID table, no node search)',
               'rejections are never judged (the property is one-directional); the unmutated base document must be accepted']

SETTINGS = [(1, 0, 0), (0, 1, 0), (0, 0, 1), (1, 1, 0), (1, 0, 1), (0, 1, 1), (1, 1, 1)]
_base_ok = {}


def satisfied(setting, shape):
    wrs, was, wors = setting
    R, Asg = 'R' in shape, 'A' in shape
    return (not wrs or R) and (not was or Asg) and (not wors or R or Asg)


def _path(el):
    p = []
    while el.parentNode is not None and el.parentNode.nodeType == Node.ELEMENT_NODE:
        sibs = [c for c in el.parentNode.childNodes if c.nodeType == Node.ELEMENT_NODE]
        p.append(sibs.index(el))
        el = el.parentNode
    return tuple(reversed(p))


def _signables(doc):
    return [e for e in xmlmut.elements(doc) if e.namespaceURI in (readers.SAML, readers.SAMLP) and e.localName in ('Assertion', 'Response')]


def oracle(doc_xml, resp, setting):
    keys = [readers.pubkey(1)]
    d0 = minidom.parseString(doc_xml.encode('utf-8'))
    s0 = set(_path(e) for e in _signables(d0) if readers.self_signed(e, keys))
    root_signed = () in s0 and d0.documentElement.localName == 'Response'
    # harness-side decryption with the SP's keys
    cur = doc_xml
    for _ in range(6):
        if 'EncryptedData' not in cur:
            break
        nxt = None
        for k in (2, 3):
            nxt = build.decrypt(cur, k)
            if nxt:
                break
        if not nxt or nxt == cur:
            break
        cur = nxt
    d1 = minidom.parseString(cur.encode('utf-8'))
    trusted = []       # (element, own_signature)
    for e in _signables(d1):
        if e.localName != 'Assertion':
            continue
        own = readers.self_signed(e, keys)
        cov = own
        p = e.parentNode
        while not cov and p is not None and p.nodeType == Node.ELEMENT_NODE:
            if p.localName in ('Assertion', 'Response') and (readers.self_signed(p, keys) or _path(p) in s0):
                cov = True
            p = p.parentNode
        if cov:
            trusted.append((readers.raw_proj(readers.et_of(e)), own))
    held = list(resp.assertions or [])
    if resp.assertion is not None and resp.assertion not in held:
        held.append(resp.assertion)
    advice = []
    for a in held:
        if a.advice and a.advice.assertion:
            advice.extend(a.advice.assertion)
    wrs, was, wors = setting
    all_own = True
    for a in held + advice:
        op = readers.obj_proj(a)
        hits = [own for proj, own in trusted if proj == op]
        if not hits:
            raise Violation('assertion-outside-signature', 'the SP holds assertion ID=%r (name id %r, attributes %r) that equals no assertion covered by a valid own signature; covered assertions: %r'
                            % (op['id'], op['nameid'] and op['nameid'][0], [x[2] for x in op['attrs']], [(p['id'], p['nameid'] and p['nameid'][0]) for p, o in trusted]))
        if a in held and not any(hits):
            all_own = False
    nid = resp.name_id.text.strip() if resp.name_id is not None and resp.name_id.text else None
    if nid is not None and nid not in [p['nameid'][0] for p, o in trusted if p['nameid']]:
        raise Violation('name-id-outside-signature', 'accepted subject %r is not the subject of any covered assertion' % nid)
    covered_values = set(v for p, o in trusted for at in p['attrs'] for v in at[2])
    for k, vs in (resp.ava or {}).items():
        for v in vs:
            if readers.st(v) not in covered_values:
                raise Violation('attribute-outside-signature', 'accepted attribute %s=%r occurs in no covered assertion (covered values %r)' % (k, v, sorted(covered_values)))
    if wrs and not root_signed:
        raise Violation('requirement-unmet:response', 'want_response_signed is on but the Response element does not carry a valid signature over itself')
    if was and not all_own:
        raise Violation('requirement-unmet:assertion', 'want_assertions_signed is on but an accepted assertion does not carry a valid signature of its own')
    if wors and not (root_signed or all_own):
        raise Violation('requirement-unmet:either', 'want_assertions_or_response_signed is on but neither the Response nor every accepted assertion carries a valid own signature')
    rp = readers.response_proj_obj(resp.response)
    if root_signed or wrs:
        if rp != readers.response_proj_raw(readers.et_of(d0.documentElement)):
            raise Violation('response-fields-outside-signature', 'response fields held by the SP %r differ from the document element %r' % (rp, readers.response_proj_raw(readers.et_of(d0.documentElement))))


def run(case):
    now = spside.NOW
    setting = tuple(SETTINGS[case['setting'] % len(SETTINGS)])
    shape = case['shape']
    if not satisfied(setting, shape):
        # pick the nearest setting the base document satisfies
        setting = [s for s in SETTINGS if satisfied(s, shape)][case['setting'] % len([s for s in SETTINGS if satisfied(s, shape)])]
    sp = spside.sp_for({'want_response_signed': bool(setting[0]), 'want_assertions_signed': bool(setting[1]), 'want_assertions_or_response_signed': bool(setting[2])})
    clock.set_now(now)
    r, a = build.standard(now)
    labels = []

    def post_assertion(x, i):
        if case.get('inner'):
            m, labs = xmlmut.mutate(x, case['inner'])
            labels.extend('inner:' + l.split('|')[0] for l in labs)
            return m if m else x
        return x

    def post_response(x):
        if case.get('script'):
            m, labs = xmlmut.mutate(x, case['script'])
            labels.extend(labs)
            return m if m else x
        return x
    kw = dict(sign_response=1 if 'R' in shape else None, sign_assertions=1 if 'A' in shape else None, alg=case['alg'], encrypt_for=2 if case['enc'] else None)
    bkey = (shape, case['alg'], case['enc'], setting)
    if bkey not in _base_ok:
        base = build.render(r, [a], **kw)
        _base_ok[bkey] = spside.deliver(sp, base)[0] == 'accept'
    if not _base_ok[bkey]:
        raise Inconclusive('unmutated base document %r not accepted' % (bkey,))
    try:
        doc = build.render(r, [a], post_assertion=post_assertion, post_response=post_response, **kw)
    except Exception:
        return 'unbuildable', False
    n0 = len(world.TOOL_LOG)
    v = spside.deliver(sp, doc)
    tool_called = len(world.TOOL_LOG) > n0
    kinds = sorted(set(l.split('|')[0] + ('|' + l.split('|')[1] if l.startswith('xsw') else '') for l in labels)) or ['noop']
    if v[0] != 'accept':
        return 'reject|' + '+'.join(kinds), bool(labels) and tool_called
    oracle(doc, v[1], setting)
    return 'accept|' + '+'.join(kinds), bool(labels) and tool_called


def case_strategy(maxlen):
    from hypothesis import strategies as st
    return st.fixed_dictionaries({'shape': st.sampled_from(['R', 'A', 'RA']), 'alg': st.sampled_from(build.HASHES), 'enc': st.sampled_from([False, False, True]),
                                  'setting': st.integers(0, 6), 'script': xmlmut.script_strategy(maxlen),
                                  'inner': st.one_of(st.just([]), st.just([]), xmlmut.script_strategy(2))})


def layered_cases():
    """ciphertext layouts the tool's own --encrypt cannot produce: a second EncryptedData (holding a forged assertion) next to / inside / instead of the genuine plaintext"""
    out = []
    for layout in ('genuine+enc(forged)', 'enc(forged)+genuine', 'enc(genuine+enc(forged))', 'enc(enc(forged))', 'two-encrypted-assertions', 'enc(forged)-only',
                   # a bare xenc:EncryptedData (no EncryptedAssertion wrapper) as a direct child of the Response, next to a genuine encrypted / plain assertion
                   'encrypted-assertion+bare-encrypted-data', 'bare-encrypted-data+encrypted-assertion', 'plain-assertion+bare-encrypted-data', 'bare-encrypted-data-in-extensions',
                   # an EncryptedData without Type (the tool hands back the bare octets) whose plaintext is a whole Response document: genuine assertion inside an
                   # EncryptedAssertion wrapper + plain forged assertion
                   'typeless-whole-document',
                   # the forged assertion carries the genuine ID; where its Signature belongs sits an EncryptedData holding the genuine ds:Signature; an encrypted
                   # advice assertion forces a second decryption round
                   'signature-encrypted-in-place'):
        for sigcopy in (True, False):
            for setting in range(7):
                for rsign in (False, True):
                    # the forged assertion carries an ID of its own, or the very ID of the genuine one (exemptions and look-ups that go by ID)
                    for same_id in (False, True):
                        out.append({'layout': layout, 'sigcopy': sigcopy, 'setting': setting, 'rsign': rsign, 'same_id': same_id})
    return out


def run_layered(case):
    now = spside.NOW
    setting = tuple(SETTINGS[case['setting']])
    sp = spside.sp_for({'want_response_signed': bool(setting[0]), 'want_assertions_signed': bool(setting[1]), 'want_assertions_or_response_signed': bool(setting[2])})
    clock.set_now(now)
    r, a = build.standard(now)
    a = dict(a, signature=build.sig_template(a['id'], 'sha256', ('x509', world.cert_body(1))))
    genuine = build.sign(build.assertion_xml(a), build.ASSERTION_NODE, a['id'], 1)
    import re
    sig = re.search(r'<ds:Signature.*?</ds:Signature>', genuine, re.S).group(0)
    forged = genuine.replace(sig, sig if case['sigcopy'] else '').replace('subject-0001', xmlmut.EVIL_NAME).replace('>Alice<', '>%s<' % xmlmut.EVIL_VALUE).replace(
        'ID="%s"' % a['id'], 'ID="%s%s"' % (a['id'], '' if case.get('same_id') else '-forged'), 1)
    ef = build.encrypt_raw(forged, 2, enc_id='EDF')
    lay = case['layout']
    if lay == 'genuine+enc(forged)':
        inner = [build.encrypt_raw(genuine + ef, 2, typ='Content', enc_id='ED1')]
    elif lay == 'enc(forged)+genuine':
        inner = [build.encrypt_raw(ef + genuine, 2, typ='Content', enc_id='ED1')]
    elif lay == 'enc(genuine+enc(forged))':
        inner = [build.encrypt_raw(build.encrypt_raw(genuine + ef, 2, typ='Content', enc_id='ED1'), 2, enc_id='ED0')]
    elif lay == 'enc(enc(forged))':
        inner = [build.encrypt_raw(ef, 2, enc_id='ED1')]
    elif lay == 'two-encrypted-assertions':
        inner = [build.encrypt_raw(genuine, 2, enc_id='ED1'), ef]
    else:
        inner = [ef]
    wrap = lambda x: '<saml:EncryptedAssertion>%s</saml:EncryptedAssertion>' % x
    extra = {}
    if lay == 'encrypted-assertion+bare-encrypted-data':
        items = [wrap(build.encrypt_raw(genuine, 2, enc_id='ED1')), ef]
    elif lay == 'bare-encrypted-data+encrypted-assertion':
        items = [ef, wrap(build.encrypt_raw(genuine, 2, enc_id='ED1'))]
    elif lay == 'plain-assertion+bare-encrypted-data':
        items = [genuine, ef]
    elif lay == 'bare-encrypted-data-in-extensions':
        items = [wrap(build.encrypt_raw(genuine, 2, enc_id='ED1'))]
        extra = {'extensions': ef}
    elif lay == 'typeless-whole-document':
        inner_doc = build.response_xml(dict(r, assertions=[wrap(genuine), forged]))
        items = [wrap(build.encrypt_raw(inner_doc, 2, typ=None, enc_id='ED1'))]
    elif lay == 'signature-encrypted-in-place':
        u = genuine.replace('subject-0001', xmlmut.EVIL_NAME).replace('>Alice<', '>%s<' % xmlmut.EVIL_VALUE)
        sig_ns = sig.replace('<ds:Signature ', '<ds:Signature xmlns:ds="%s" ' % build.DS, 1) if 'xmlns:ds=' not in sig.split('>', 1)[0] else sig
        u = u.replace(sig, build.encrypt_raw(sig_ns, 2, enc_id='EDS') if case['sigcopy'] else '')
        dummy = build.assertion_xml(dict(a, id='id-dummy-advice', signature=None))
        adv = '<saml:Advice>%s</saml:Advice>' % wrap(build.encrypt_raw(dummy, 2, enc_id='EDA'))
        u = u.replace('<saml:Conditions', adv + '<saml:Conditions', 1) if '<saml:Conditions' in u else u
        items = [wrap(build.encrypt_raw(u, 2, enc_id='ED1'))]
    else:
        items = [wrap(x) for x in inner]
    rr = dict(r, assertions=items, **extra)
    if case['rsign']:
        rr['signature'] = build.sig_template(rr['id'], 'sha256', ('x509', world.cert_body(1)))
    doc = build.response_xml(rr)
    if case['rsign']:
        doc = build.sign(doc, build.RESPONSE_NODE, rr['id'], 1)
    v = spside.deliver(sp, doc)
    if v[0] != 'accept':
        return 'layered|%s|reject' % lay, True
    oracle(doc, v[1], setting)
    return 'layered|%s|accept' % lay, True


def catalogue(full=False):
    """every XSW construction: target x place x id mode x signature mode, at both levels, for plain and encrypted bases"""
    out = []
    for shape in ('A', 'R', 'RA'):
        for enc in (False, True):
            for target in range(2 if shape == 'RA' else 1):
                for place in range(7):
                    for idm in range(5):
                        for sgm in range(4):
                            for setting in range(7):
                                if not full and (place + idm + sgm + setting) % 3 and setting not in (0, 1):
                                    continue        # thin the setting dimension deterministically
                                if not full and setting not in (0, 1) and (place + 2 * idm + sgm + setting) % 2:
                                    continue
                                for strip in (0, 1):
                                    if strip and sgm == 1:
                                        continue
                                    if not full and ((strip and sgm == 2) or (idm == 3 and sgm in (1, 2)) or (sgm == 3 and place in (2, 5, 6) and not strip)):
                                        continue        # quick tier: combinations that add nothing over their neighbours
                                    step = {'op': 'xsw', 'a': target, 'b': place, 'c': idm, 'd': sgm, 'e': 0, 'f': strip}
                                    case = {'shape': shape, 'alg': 'sha256', 'enc': enc, 'setting': setting, 'script': [step], 'inner': []}
                                    out.append(case)
                                    if 'A' in shape and (enc or 'R' in shape):
                                        out.append(dict(case, script=[], inner=[step]))
    return out


def known_match(part, case, v):
    return None


def parts(tier):
    quick = tier != 'thorough'
    return [Part('xsw-catalogue', run, cases=lambda: catalogue(full=not quick), exhaustive=True),
            Part('layered-encryption', run_layered, cases=layered_cases, exhaustive=True),
            Part('scripts', run, strategy=lambda: case_strategy(4 if quick else 6), examples=2500 if quick else 30000)]
