"""C11 - no XML entry point resolves entities, DTD content or external resources.

inventory: an ast walk over every module of the package lists every XML parsing call site; each must go through
defusedxml.  sweep: every public parse entry point (all *_from_string of the schema modules, SOAP / pack / metadata /
binding / signature-checking entry points) x a catalogue of hostile documents derived from a valid document for that
entry point, under a sys.addaudithook monitor."""
import ast, os, sys, base64, zlib
from harness.runner import Part, Violation, REPO

PROPERTY = 'C11'
LEVEL = 'exploration'
RULE = ('fuzz: atheris / libFuzzer campaigns (16 shards x fixed run count, seeds derived from VERIF_SEED, corpus = the catalogue) over 10 entry points with the same oracle in the target; '
        'inventory: all call sites of XML parsing functions (fromstring, XML, parse, iterparse, XMLParser, XMLPullParser, parseString, ParserCreate, make_parser, ...) in '
        'src/saml2_tophat/**/*.py, enumerated exhaustively by ast; sweep: entry points discovered by introspection (ELEMENT_FROM_STRING of every schema module, '
        'create_class_from_xml_string, extension_element_from_string, soap.*, pack.parse_soap_enveloped_saml, InMemoryMetaData.parse, MetadataStore.load, Entity.unravel, '
        'Saml2Client.parse_authn_request_response, Server.parse_authn_request / parse_logout_request, SecurityContext.correctly_signed_*) x payload families '
        '(internal general entity in text / attribute, parameter entity, external SYSTEM / PUBLIC entity on a canary file and a closed port, nested-entity bomb, attribute default declared in the internal DTD subset, external DTD, '
        'XInclude, xml-stylesheet PI, UTF-16 LE/BE with BOM with and without entity, declared-encoding mismatch, truncation at structural boundaries, non-XML). '
        'Non-trivial = payload declares an entity / external reference or is a proper truncation; distinct = (entry point, payload).')
ASSUMPTIONS = ['sys.addaudithook events open / socket.* / urllib.Request / subprocess.Popen observe every file and network access of CPython code',
               'inventory is syntactic: a parser reached through getattr/importlib with computed names would escape it (the sweep still covers the listed entry points)']

PARSE_FUNCS = {'fromstring', 'XML', 'parse', 'iterparse', 'XMLParser', 'XMLPullParser', 'parseString', 'ParserCreate', 'make_parser', 'XMLID', 'fromstringlist',
               'parseStringIO', 'TreeBuilder_parser', 'expatreader', 'create_parser', 'XMLTreeBuilder', 'HTML', 'XMLDTDID'}
UNSAFE_ROOTS = ('xml.etree', 'xml.dom', 'xml.sax', 'xml.parsers', 'lxml', 'cElementTree', 'elementtree', 'xml')
TOKEN = 'VERIFEXPANDED'
CANARY_TEXT = 'CANARY-SECRET-CONTENT'


# ------------------------------------------------------------------ inventory
def _sites():
    root = os.path.join(REPO, 'src', 'saml2_tophat')
    out = []
    for dp, dn, fns in os.walk(root):
        for fn in sorted(fns):
            if not fn.endswith('.py'):
                continue
            path = os.path.join(dp, fn)
            rel = os.path.relpath(path, os.path.join(REPO, 'src'))
            try:
                with open(path, encoding='utf-8') as f:
                    tree = ast.parse(f.read(), path)
            except SyntaxError as e:
                out.append({'file': rel, 'line': 0, 'call': 'unparseable module', 'via': 'syntax-error', 'safe': True})
                continue
            alias = {}      # local name -> dotted origin
            for node in ast.walk(tree):
                if isinstance(node, ast.Import):
                    for a in node.names:
                        alias[(a.asname or a.name).split('.')[0] if not a.asname else a.asname] = a.name if a.asname else a.name.split('.')[0]
                        if a.asname:
                            alias[a.asname] = a.name
                elif isinstance(node, ast.ImportFrom) and node.module:
                    for a in node.names:
                        alias[a.asname or a.name] = node.module + '.' + a.name
            for node in ast.walk(tree):
                if not isinstance(node, ast.Call):
                    continue
                f = node.func
                chain = []
                while isinstance(f, ast.Attribute):
                    chain.append(f.attr)
                    f = f.value
                if not isinstance(f, ast.Name):
                    continue
                chain.append(f.id)
                chain.reverse()
                fname = chain[-1]
                if fname not in PARSE_FUNCS:
                    continue
                origin = alias.get(chain[0])
                if origin is None:
                    continue        # a local object's method (e.g. urlparse result, own classes)
                dotted = origin + ('.' + '.'.join(chain[1:]) if len(chain) > 1 else '')
                if dotted.startswith('defusedxml'):
                    out.append({'file': rel, 'line': node.lineno, 'call': dotted, 'via': 'defusedxml', 'safe': True})
                elif dotted.split('.')[0] in ('xml', 'lxml', 'cElementTree', 'elementtree') or any(dotted.startswith(r) for r in UNSAFE_ROOTS):
                    out.append({'file': rel, 'line': node.lineno, 'call': dotted, 'via': 'stdlib/third-party XML parser', 'safe': False})
    return out


def inventory_cases():
    return _sites()


def run_inventory(case):
    if not case['safe']:
        raise Violation('non-defused-parse-call', '%s:%d calls %s (%s): XML received from outside must be parsed through defusedxml'
                        % (case['file'], case['line'], case['call'], case['via']))
    return 'defused-call-site', True


# ------------------------------------------------------------------ audit monitor
_events = []
_armed = [False]
_hook_installed = [False]


def _hook(event, args):
    if not _armed[0]:
        return
    if event == 'open':
        p = args[0]
        if isinstance(p, (str, bytes)):
            p = p.decode() if isinstance(p, bytes) else p
            if 'canary' in p or p.endswith('.dtd') or p.endswith('.ent'):
                _events.append(('open', p))
    elif event.startswith('socket.') or event in ('urllib.Request', 'subprocess.Popen', 'os.system', 'ftplib.connect', 'http.client.connect'):
        _events.append((event, repr(args)[:120]))


def monitor(fn):
    if not _hook_installed[0]:
        sys.addaudithook(_hook)
        _hook_installed[0] = True
    del _events[:]
    _armed[0] = True
    try:
        try:
            return ('ok', fn())
        except BaseException as e:
            return ('exc', type(e).__name__)
    finally:
        _armed[0] = False


# ------------------------------------------------------------------ payloads
def canary():
    p = os.path.join(os.getcwd(), 'canary-%d.txt' % os.getpid())
    if not os.path.exists(p):
        with open(p, 'w') as f:
            f.write(CANARY_TEXT)
    return p


def _split(doc):
    """(declaration, root start tag, rest) of a serialised document (bytes -> str)"""
    s = doc.decode('utf-8') if isinstance(doc, bytes) else doc
    decl = ''
    if s.startswith('<?xml'):
        i = s.index('?>') + 2
        decl, s = s[:i], s[i:].lstrip()
    j = s.index('>')
    if s[j - 1] == '/':       # empty root: open it
        root_start = s[:j - 1].rstrip() + '>'
        name = s[1:].split()[0].split('/')[0].split('>')[0]
        rest = '</%s>' % name
    else:
        root_start = s[:j + 1]
        rest = s[j + 1:]
    return decl, root_start, rest


def payloads(doc, tier, only_dtd=False):
    """[(family, bytes, kind)] kind: 'entity' (must be refused), 'external' (no access; any result), 'malformed' (must be refused), 'benign' (may parse)"""
    decl, start, rest = _split(doc)
    root = start[1:].split()[0].rstrip('>')
    can = canary()
    out = []
    X = '<?xml version="1.0" encoding="UTF-8"?>'
    out.append(('internal-entity-text', '%s<!DOCTYPE %s [<!ENTITY x "%s">]>%s&x;%s' % (X, root, TOKEN, start, rest), 'entity'))
    out.append(('internal-entity-attribute', '%s<!DOCTYPE %s [<!ENTITY x "%s">]>%s%s' % (X, root, TOKEN, start[:-1] + ' verifattr="&x;">', rest), 'entity'))
    # DTD content other than entities: an attribute default declared in the internal subset must not surface in the parsed object ("DTD content")
    out.append(('entity-declared-unused', '%s<!DOCTYPE %s [<!ENTITY x "%s">]>%s%s' % (X, root, TOKEN, start, rest), 'entity'))
    out.append(('parameter-entity', '%s<!DOCTYPE %s [<!ENTITY %% p "<!ENTITY x \'%s\'>"> %%p;]>%s&x;%s' % (X, root, TOKEN, start, rest), 'entity'))
    out.append(('external-system-entity-file', '%s<!DOCTYPE %s [<!ENTITY x SYSTEM "file://%s">]>%s&x;%s' % (X, root, can, start, rest), 'entity'))
    out.append(('external-public-entity', '%s<!DOCTYPE %s [<!ENTITY x PUBLIC "-//V//E" "file://%s">]>%s&x;%s' % (X, root, can, start, rest), 'entity'))
    out.append(('external-entity-network', '%s<!DOCTYPE %s [<!ENTITY x SYSTEM "http://127.0.0.1:9/canary">]>%s&x;%s' % (X, root, start, rest), 'entity'))
    out.append(('external-parameter-entity', '%s<!DOCTYPE %s [<!ENTITY %% p SYSTEM "file://%s.ent"> %%p;]>%s%s' % (X, root, can, start, rest), 'entity'))
    out.append(('entity-bomb', '%s<!DOCTYPE %s [<!ENTITY a "%s"><!ENTITY b "&a;&a;&a;&a;"><!ENTITY c "&b;&b;&b;&b;">]>%s&c;%s' % (X, root, TOKEN, start, rest), 'entity'))
    # the same hostile documents with an XML comment / processing instruction in them (pre-processing steps keyed on such content must not
    # come before the hardened parse)
    out.append(('internal-entity-text-with-comment', '%s<!DOCTYPE %s [<!ENTITY x "%s">]>%s<!-- note -->&x;%s' % (X, root, TOKEN, start, rest), 'entity'))
    out.append(('internal-entity-prolog-comment', '%s<!-- note --><!DOCTYPE %s [<!ENTITY x "%s">]>%s&x;%s<!-- end -->' % (X, root, TOKEN, start, rest), 'entity'))
    out.append(('internal-entity-text-with-pi', '%s<!DOCTYPE %s [<!ENTITY x "%s">]>%s<?verif pi?>&x;%s' % (X, root, TOKEN, start, rest), 'entity'))
    out.append(('internal-entity-cdata-neighbour', '%s<!DOCTYPE %s [<!ENTITY x "%s">]>%s<![CDATA[c]]>&x;%s' % (X, root, TOKEN, start, rest), 'entity'))
    # references to entities that are declared nowhere: not well-formed (WFC Entity Declared), whatever the name means elsewhere (HTML)
    for nm in ('verifundeclared', 'nbsp', 'eacute', 'copy'):
        out.append(('undeclared-entity-text-' + nm, '%s%s&%s;%s' % (X, start, nm, rest), 'malformed'))
    out.append(('undeclared-entity-attribute-nbsp', '%s%s%s' % (X, start[:-1] + ' verifattr="a&nbsp;b">', rest), 'malformed'))
    out.append(('external-dtd', '%s<!DOCTYPE %s SYSTEM "file://%s.dtd">%s%s' % (X, root, can, start, rest), 'external'))
    out.append(('xinclude', '%s%s<xi:include xmlns:xi="http://www.w3.org/2001/XInclude" href="file://%s" parse="text"/>%s' % (X, start, can, rest), 'external'))
    out.append(('stylesheet-pi', '%s<?xml-stylesheet type="text/xsl" href="file://%s"?>%s%s' % (X, can, start, rest), 'external'))
    body = start + rest
    ent16 = '<!DOCTYPE %s [<!ENTITY x "%s">]>%s&x;%s' % (root, TOKEN, start, rest)
    out.append(('utf16le-bom-entity', b'\xff\xfe' + ('<?xml version="1.0" encoding="UTF-16"?>' + ent16).encode('utf-16-le'), 'entity'))
    out.append(('utf16be-bom-entity', b'\xfe\xff' + ('<?xml version="1.0" encoding="UTF-16"?>' + ent16).encode('utf-16-be'), 'entity'))
    out.append(('utf16-declared-utf8-bytes-entity', ('<?xml version="1.0" encoding="UTF-16"?>' + ent16), 'entity'))
    out.append(('utf8-bom-entity', b'\xef\xbb\xbf' + (X + ent16).encode('utf-8'), 'entity'))
    out.append(('latin1-declared-entity', ('<?xml version="1.0" encoding="ISO-8859-1"?>' + ent16).encode('latin-1', 'xmlcharrefreplace'), 'entity'))
    out.append(('utf16le-bom-valid', b'\xff\xfe' + ('<?xml version="1.0" encoding="UTF-16"?>' + body).encode('utf-16-le'), 'benign'))
    out.append(('not-xml', 'this is not XML at all', 'malformed'))
    out.append(('empty-root-garbage', body + 'trailing<', 'malformed'))
    # truncations at structural boundaries
    cuts = [i + 1 for i, ch in enumerate(body) if ch in '<>"= '][:-1]
    n = 3 if tier == 'quick' else 12
    if len(cuts) > n:
        step = len(cuts) / float(n)
        cuts = [cuts[int(k * step)] for k in range(n)]
    for c in cuts:
        if 0 < c < len(body) - 1:
            out.append(('truncated@%d' % c, X + body[:c], 'malformed'))
    if only_dtd:
        # judged in a part of its own (open known finding C11-dtd-attribute-defaults-applied), so that excluding it does not hide the other families
        out = [('internal-dtd-attribute-default', '%s<!DOCTYPE %s [<!ATTLIST %s verifattr CDATA "%s">]>%s%s' % (X, root, root, TOKEN, start, rest), 'dtd')]
    res = []
    for fam, data, kind in out:
        res.append((fam, data if isinstance(data, bytes) else data.encode('utf-8'), kind))
    return res


def contains_token(x, depth=0, tokens=(TOKEN, CANARY_TEXT)):
    if x is None or depth > 6:
        return False
    if isinstance(x, bytes):
        return any(t.encode() in x for t in tokens)
    if isinstance(x, str):
        return any(t in x for t in tokens)
    if isinstance(x, dict):
        return any(contains_token(k, depth + 1, tokens) or contains_token(v, depth + 1, tokens) for k, v in x.items())
    if isinstance(x, (list, tuple, set)):
        return any(contains_token(v, depth + 1, tokens) for v in x)
    try:
        from saml2_tophat import SamlBase, ExtensionElement
        if isinstance(x, (SamlBase, ExtensionElement)):
            return contains_token(x.to_string(), depth + 1, tokens)
    except Exception:
        pass
    try:
        return contains_token(str(x), depth + 1, tokens) if not isinstance(x, (int, float, bool)) else False
    except Exception:
        return False


_COUNT = {'payload_calls': 0, 'hostile_payload_calls': 0}


def worker_notes():
    return dict(_COUNT)


def judge(entry, fam, kind, outcome):
    _COUNT['payload_calls'] += 1
    if kind != 'benign':
        _COUNT['hostile_payload_calls'] += 1
    status, val = outcome
    ev = list(_events)
    if ev:
        raise Violation('external-access', '%s with payload %s caused %r' % (entry, fam, ev[:3]))
    returned = status == 'ok' and val is not None and val != '' and val != b'' and val != {} and val != []
    if returned and kind != 'dtd' and contains_token(val):
        raise Violation('entity-expanded', '%s with payload %s returned an object containing the entity replacement text' % (entry, fam))
    if kind == 'dtd' and returned and contains_token(val):
        raise Violation('dtd-default-applied', '%s with payload %s returned an object carrying an attribute value that only the document\'s DTD declares' % (entry, fam))
    if kind == 'entity' and returned:
        raise Violation('entity-document-accepted', '%s accepted a document that declares an entity (payload %s): %r' % (entry, fam, type(val).__name__))
    if kind == 'malformed' and returned:
        raise Violation('malformed-document-accepted', '%s returned %r for malformed input (payload %s)' % (entry, type(val).__name__, fam))
    return ('refused' if not returned else 'parsed') + '|' + kind


# ------------------------------------------------------------------ entry points
_entries = None


def schema_entries():
    """[(name, 'module:Class')] one per class reachable through its module's ELEMENT_FROM_STRING"""
    from harness import schema_gen as G
    out = []
    for cn, cls in sorted(G.classes().items()):
        mod = sys.modules[cls.__module__]
        efs = getattr(mod, 'ELEMENT_FROM_STRING', {})
        if cls.c_tag in efs:
            out.append((cn, 'from_string'))
        out.append((cn, 'create_class'))
    return out


def sweep_cases_schema():
    return [{'entry': 'schema', 'cls': cn, 'how': how} for cn, how in schema_entries()]


def run_schema(case, tier='quick'):
    from harness import schema_gen as G
    from saml2_tophat import create_class_from_xml_string
    cls = G.classes()[case['cls']]
    doc = G.build(G.full_spec(case['cls'], 1, 0)).to_string()
    if case['how'] == 'from_string':
        f = sys.modules[cls.__module__].ELEMENT_FROM_STRING[cls.c_tag]
        call = lambda data: f(data)
    else:
        call = lambda data: create_class_from_xml_string(cls, data)
    name = '%s(%s)' % (case['how'], case['cls'])
    base = monitor(lambda: call(doc))
    if base[0] != 'ok' or base[1] is None:
        return 'valid-doc-not-parsed', False
    labs = set()
    for fam, data, kind in payloads(doc, tier):
        labs.add(judge(name, fam, kind, monitor(lambda: call(data))))
        if kind != 'malformed':
            # the same bytes handed over as text (callers pass str as well as bytes)
            try:
                text = data.decode('utf-8')
            except UnicodeDecodeError:
                continue
            labs.add(judge(name + '[str]', fam, kind, monitor(lambda: call(text))))
    return '+'.join(sorted(labs)), True


# -------- other entry points
def _world():
    from harness import world, build, clock, spside
    w = _world.__dict__
    if 'sp' not in w:
        world.install_inprocess_tool()
        idp_md = build.entity_xml({'entityid': spside.IDP, 'idp': {'keys': [('signing', 1)]}})
        w['sp'] = world.make_sp(world.sp_conf(dict(world.DEFAULT_SP, want_response_signed=False, want_assertions_signed=False), [idp_md]))
        sp_md = build.entity_xml({'entityid': spside.SP, 'sp': {'keys': [('signing', 0)], 'acs': [(world.POST, spside.ACS_POST, 0, True)],
                                                                  'slo': [(world.REDIRECT, 'https://sp.verif.example/slo'), (world.SOAP, 'https://sp.verif.example/slo/soap')]}})
        w['idp'] = world.make_idp(world.idp_conf(dict(world.DEFAULT_IDP), [sp_md]))
        w['sp_md'] = sp_md
        clock.install()
        clock.set_now(spside.NOW)
    return w


def other_entries():
    """name -> (valid document text, callable(bytes) -> result)"""
    from harness import world, build, spside
    from saml2_tophat import soap, pack, samlp, saml, extension_element_from_string, SamlBase
    from saml2_tophat.entity import Entity
    from saml2_tophat.mdstore import InMemoryMetaData, MetadataStore
    from saml2_tophat.attribute_converter import ac_factory
    from saml2_tophat.config import Config
    w = _world()
    now = spside.NOW
    r, a = build.standard(now)
    resp = build.render(r, [a])
    logout = build.logout_request_xml({'id': 'id-q-1', 'issue_instant': build.ts(now), 'destination': 'https://idp.verif.example/slo/soap', 'issuer': spside.SP})
    authn = build.authn_request_xml({'id': 'id-q-2', 'issue_instant': build.ts(now), 'destination': 'https://idp.verif.example/sso', 'issuer': spside.SP, 'acs_url': spside.ACS_POST,
                                     'protocol_binding': world.POST, 'name_id_policy': {'format': build.TRANSIENT, 'allow_create': 'true'}})
    r2, a2 = build.standard(now, acs=spside.ACS_REDIRECT)
    resp_redirect = build.render(r2, [a2])
    authn_post = authn.replace('https://idp.verif.example/sso"', 'https://idp.verif.example/sso/post"')
    env_logout = build.soap_envelope(logout)
    env_resp = build.soap_envelope(resp)
    md = w['sp_md']

    def as_text(b):
        return b.decode('utf-8', 'surrogateescape') if isinstance(b, bytes) else b

    def mdparse(data):
        m = InMemoryMetaData(ac_factory(), '')
        m.parse(data)
        return dict(m.items()) or None

    def mdstore_inline(data):
        conf = Config()
        conf.xmlsec_binary = world.XMLSEC
        mds = MetadataStore(ac_factory(), conf)
        mds.load('inline', data)
        return list(mds.keys()) or None

    def mdstore_local(data):
        p = os.path.join(os.getcwd(), 'md-%d.xml' % os.getpid())
        with open(p, 'wb') as f:
            f.write(data)
        conf = Config()
        conf.xmlsec_binary = world.XMLSEC
        mds = MetadataStore(ac_factory(), conf)
        mds.load('local', p)
        return list(mds.keys()) or None

    def sp_post(data):
        res = w['sp'].parse_authn_request_response(base64.b64encode(data).decode(), world.POST, {'id-req-1': '/'})
        return None if res is None else (res.ava, res.name_id)

    def sp_redirect(data):
        res = w['sp'].parse_authn_request_response(base64.b64encode(zlib.compress(data)[2:-4]).decode(), world.REDIRECT, {'id-req-1': '/'})
        return None if res is None else (res.ava, res.name_id)

    def idp_redirect(data):
        res = w['idp'].parse_authn_request(base64.b64encode(zlib.compress(data)[2:-4]).decode(), world.REDIRECT)
        return None if res is None or res.message is None else res.message

    def idp_post(data):
        res = w['idp'].parse_authn_request(base64.b64encode(data).decode(), world.POST)
        return None if res is None or res.message is None else res.message

    def idp_logout_soap(data):
        res = w['idp'].parse_logout_request(as_text(data), world.SOAP)
        return None if res is None or res.message is None else res.message

    nameid_doc = '<saml:NameID xmlns:saml="%s" Format="%s">subject-0001</saml:NameID>' % (build.SAML, build.TRANSIENT)

    def sp_encrypted_id(data):
        # the document exists only as cipher text: the subject identifier of an otherwise valid, signed response is an EncryptedID whose plaintext is `data`
        # (EncryptedData without a Type attribute: the decryptor returns the octets as they are)
        r3, a3 = build.standard(now)
        a3['subject']['raw_id'] = '<saml:EncryptedID>%s</saml:EncryptedID>' % build.encrypt_raw(data, 2, typ=None, enc_id='EDID')
        doc = build.render(r3, [a3], sign_response=1)
        res = w['sp'].parse_authn_request_response(base64.b64encode(doc.encode('utf-8')).decode(), world.POST, {'id-req-1': '/'})
        if res is None or res.name_id is None:
            return None
        return (res.name_id.text, res.ava)

    sec = w['sp'].sec
    return {
        'decrypted EncryptedID content': (nameid_doc, sp_encrypted_id),
        'extension_element_from_string': (resp, lambda d: extension_element_from_string(d)),
        'soap.parse_soap_enveloped_saml_thingy': (env_logout, lambda d: soap.parse_soap_enveloped_saml_thingy(d, ['{%s}LogoutRequest' % build.SAMLP])),
        'soap.parse_soap_enveloped_saml_logout_request': (env_logout, lambda d: soap.parse_soap_enveloped_saml_logout_request(d)),
        'soap.parse_soap_enveloped_saml_authn_response': (env_resp, lambda d: soap.parse_soap_enveloped_saml_authn_response(d)),
        'soap.open_soap_envelope': (env_logout, lambda d: soap.open_soap_envelope(d)),
        'soap.class_instances_from_soap_enveloped_saml_thingies': (env_logout, lambda d: soap.class_instances_from_soap_enveloped_saml_thingies(d, [samlp, saml])),
        'pack.parse_soap_enveloped_saml': (env_logout, lambda d: pack.parse_soap_enveloped_saml(d, samlp.LogoutRequest)),
        'Entity.unravel[SOAP request]': (env_logout, lambda d: Entity.unravel(d, world.SOAP, 'logout_request')),
        'Entity.unravel[SOAP response]': (env_resp, lambda d: Entity.unravel(d, world.SOAP, 'authn_response')),
        'InMemoryMetaData.parse': (md, mdparse),
        'MetadataStore.load[inline]': (md, mdstore_inline),
        'MetadataStore.load[local]': (md, mdstore_local),
        'Saml2Client.parse_authn_request_response[POST]': (resp, sp_post),
        'Saml2Client.parse_authn_request_response[Redirect]': (resp_redirect, sp_redirect),
        'Server.parse_authn_request[Redirect]': (authn, idp_redirect),
        'Server.parse_authn_request[POST]': (authn_post, idp_post),
        'Server.parse_logout_request[SOAP]': (env_logout, idp_logout_soap),
        'SecurityContext.correctly_signed_response': (resp, lambda d: sec.correctly_signed_response(as_text(d))),
        'SecurityContext.correctly_signed_authn_request': (authn, lambda d: sec.correctly_signed_authn_request(as_text(d))),
        'SecurityContext.correctly_signed_logout_request': (logout, lambda d: sec.correctly_signed_logout_request(as_text(d))),
        'samlp.any_response_from_string': (resp, lambda d: samlp.any_response_from_string(d)),
    }


OTHER_NAMES = ['decrypted EncryptedID content', 'extension_element_from_string', 'soap.parse_soap_enveloped_saml_thingy', 'soap.parse_soap_enveloped_saml_logout_request',
               'soap.parse_soap_enveloped_saml_authn_response', 'soap.open_soap_envelope', 'soap.class_instances_from_soap_enveloped_saml_thingies',
               'pack.parse_soap_enveloped_saml', 'Entity.unravel[SOAP request]', 'Entity.unravel[SOAP response]', 'InMemoryMetaData.parse', 'MetadataStore.load[inline]',
               'MetadataStore.load[local]', 'Saml2Client.parse_authn_request_response[POST]', 'Saml2Client.parse_authn_request_response[Redirect]',
               'Server.parse_authn_request[Redirect]', 'Server.parse_authn_request[POST]', 'Server.parse_logout_request[SOAP]',
               'SecurityContext.correctly_signed_response', 'SecurityContext.correctly_signed_authn_request', 'SecurityContext.correctly_signed_logout_request',
               'samlp.any_response_from_string']


def other_cases(tier):
    # payload families are enumerated inside the case so that the valid document is built once
    return [{'entry': n, 'shard': k} for n in OTHER_NAMES for k in range(4)]


def run_other(case, tier='quick'):
    entries = other_entries()
    doc, call = entries[case['entry']]
    base = monitor(lambda: call(doc.encode('utf-8')))
    if base[0] != 'ok' or base[1] is None:
        raise ValueError('harness: valid document not accepted by %s: %r' % (case['entry'], base))
    labs = set()
    pls = payloads(doc, 'thorough')
    for i, (fam, data, kind) in enumerate(pls):
        if i % 4 != case['shard']:
            continue
        labs.add(judge(case['entry'], fam, kind, monitor(lambda: call(data))))
    return '+'.join(sorted(labs)), True


def dtd_cases():
    return [{'entry': 'schema', 'cls': cn, 'how': how} for cn, how in schema_entries() if how == 'from_string'] + [{'entry': n} for n in OTHER_NAMES]


def run_dtd(case):
    """the one payload family that is an open known finding: an attribute default declared in the internal DTD subset"""
    if case['entry'] == 'schema':
        from harness import schema_gen as G
        cls = G.classes()[case['cls']]
        doc = G.build(G.full_spec(case['cls'], 1, 0)).to_string()
        f = sys.modules[cls.__module__].ELEMENT_FROM_STRING[cls.c_tag]
        call, name = (lambda data: f(data)), 'from_string(%s)' % case['cls']
        doc = doc.decode('utf-8') if isinstance(doc, bytes) else doc
    else:
        doc, call = other_entries()[case['entry']]
        name = case['entry']
    labs = set()
    for fam, data, kind in payloads(doc, 'quick', only_dtd=True):
        labs.add(judge(name, fam, kind, monitor(lambda: call(data))))
    return '+'.join(sorted(labs)), True


def fuzz_cases(tier, seed_base=1):
    n = 16
    runs = 30000 if tier == 'quick' else 1500000
    return [{'shard': k, 'runs': runs} for k in range(n)]


def run_fuzz(case):
    """one libFuzzer campaign (atheris, coverage-guided) over a rotating set of entry points with the same oracle inside the target;
    a crash input is a counterexample.  `data_b64` in the case replays a saved input."""
    import subprocess, base64, glob, shutil
    from harness.runner import VERIF
    target = os.path.join(VERIF, 'tools', 'fuzz', 'c11_target.py')
    env = dict(os.environ)
    if case.get('data_b64'):
        p = os.path.join(os.getcwd(), 'replay-input')
        with open(p, 'wb') as f:
            f.write(base64.b64decode(case['data_b64']))
        r = subprocess.run(['/venv/bin/python', '-W', 'ignore', target, '--replay', p], capture_output=True, text=True, env=env)
        if r.returncode != 0:
            raise Violation('fuzz-oracle-failure', r.stdout.strip()[-300:])
        return 'fuzz-replay', True
    wd = os.path.join(os.getcwd(), 'fuzz-%d-%d' % (os.getpid(), case['shard']))
    os.makedirs(wd, exist_ok=True)
    seed = 1000 * int(os.environ.get('VERIF_SEED', '1') or '1') + case['shard'] + 1
    r = subprocess.run(['/venv/bin/python', '-W', 'ignore', target, '-runs=%d' % case['runs'], '-seed=%d' % seed, '-max_len=6000', '-timeout=20', os.path.join(wd, 'corpus'),
                        '-artifact_prefix=' + os.path.join(wd, 'crash-')], capture_output=True, text=True, env=env, cwd=wd)
    crashes = sorted(glob.glob(os.path.join(wd, 'crash-*')))
    stats = [l for l in r.stderr.splitlines() if 'DONE' in l or 'cov:' in l][-1:] or ['']
    import re
    m = re.search(r'cov: (\d+) ft: (\d+) corp: (\d+)', stats[0])
    if m:
        _COUNT['fuzz_cov_sum_over_shards'] = _COUNT.get('fuzz_cov_sum_over_shards', 0) + int(m.group(1))
        _COUNT['fuzz_execs'] = _COUNT.get('fuzz_execs', 0) + case['runs']
    # an artifact counts only if replaying it alone, in a fresh process, fails the oracle again: libFuzzer also writes artifacts for per-input timeouts,
    # memory limits and slow units (machine load), and those are not counterexamples
    confirmed = None
    for cpath in crashes:
        rr = subprocess.run(['/venv/bin/python', '-W', 'ignore', target, '--replay', cpath], capture_output=True, text=True, env=env)
        if rr.returncode != 0 and 'ORACLE-FAILURE' in rr.stdout:
            with open(cpath, 'rb') as f:
                confirmed = (f.read(), rr.stdout.strip()[-300:])
            break
        if rr.returncode != 0:
            shutil.rmtree(wd, ignore_errors=True)
            raise ValueError('harness: fuzz target raised outside the oracle on a saved input: %s' % (rr.stderr[-600:],))
        _COUNT['fuzz_unreproduced_artifacts'] = _COUNT.get('fuzz_unreproduced_artifacts', 0) + 1
    shutil.rmtree(wd, ignore_errors=True)
    if confirmed:
        raise Violation('fuzz-oracle-failure', 'coverage-guided fuzzing found an input violating the oracle: %s' % confirmed[1],
                        detail={'replay_case': {'data_b64': base64.b64encode(confirmed[0]).decode(), 'shard': case['shard'], 'runs': 0}})
    if r.returncode != 0 and not crashes:
        raise ValueError('harness: fuzz target failed without a crash file: %s' % r.stderr[-400:])
    return 'fuzz-campaign', True


def known_match(part, case, v):
    if v.bucket == 'dtd-default-applied':
        return 'C11-dtd-attribute-defaults-applied'
    return None


def parts(tier):
    return [
        Part('inventory', run_inventory, cases=inventory_cases, exhaustive=True),
        Part('schema-entry-points', lambda c: run_schema(c, tier), cases=sweep_cases_schema, exhaustive=True),
        Part('other-entry-points', lambda c: run_other(c, tier), cases=lambda: other_cases(tier), exhaustive=True),
        Part('dtd-attribute-defaults', run_dtd, cases=dtd_cases, exhaustive=True),
        Part('fuzz', run_fuzz, cases=lambda: fuzz_cases(tier)),
    ]
