"""C16 - the metadata store serves exactly what valid, unexpired metadata declares.

Generated federation document sets (1-3 sources; inline / local file / remote with a fake HTTP client; EntityDescriptor or
EntitiesDescriptor roots; duplicates across sources; validUntil past/future/absent on documents and entities; SAML 1.1-only
role descriptors; key descriptors with use signing/encryption/none; signed remote documents valid / tampered / wrong key)
are loaded into a MetadataStore and every accessor is compared with a reference model of the specs the documents were
rendered from.  A second part round-trips generated SP/IdP configurations through metadata generation."""
import os
from harness.runner import Part, Violation
from harness import build, world, clock

PROPERTY = 'C16'
LEVEL = 'exploration'
RULE = ('federations: Hypothesis specs of 1-3 sources x 1-5 entities from a pool of 5 entity ids (so ids repeat across sources) x roles {idp, sp, aa} x endpoints over 5 bindings with '
        'indexes x key descriptors (use signing/encryption/none, 1-2 certs) x protocolSupportEnumeration {SAML2, SAML1 only, both} x entity categories (one Attribute, one Attribute per value, spread over two EntityAttributes blocks; a second entity attribute interleaved) / requested attributes x '
        'validUntil {absent, past, future} on entity and document x signed remote roots {valid, tampered, wrong key} x entry point {load, imp dict-style, imp list-style; the store keeps being used after a refused source} x validUntil spelled with 0-9 fractional digits and with Z or a numeric zone offset; all accessors queried for every (entity, role, service, binding) '
        'incl. an unknown entity. config round trip: generated SP/IdP configs -> entity_descriptor -> store. '
        'Non-trivial = federation has a duplicate id, an expired item, a signed source or an entity with >= 2 roles / key uses; distinct = distinct spec.')
ASSUMPTIONS = ['reference model = the spec the XML was rendered from (harness templates); for ids defined in several sources any single defining source is an acceptable answer',
               'frozen clock; xmlsec1 stand-in verifies signed metadata; remote sources use a fake HTTP client object',
               'a known entity lacking the queried *role* may raise either UnknownSystemEntity or UnsupportedBinding (the statement only fixes known-entity-lacking-binding)']

NOW = 1700000000
IDS = ['https://e1.example.org', 'https://e2.example.org', 'https://e3.example.org', 'https://e4.example.org', 'urn:e5']
BIND = [world.POST, world.REDIRECT, world.SOAP, world.ARTIFACT, world.PAOS]
SAML2 = 'urn:oasis:names:tc:SAML:2.0:protocol'
SAML1 = 'urn:oasis:names:tc:SAML:1.1:protocol'
ROLE_SERVICES = {'idp': ['sso', 'slo', 'ars'], 'sp': ['acs', 'slo', 'mnid'], 'aa': ['attribute_service']}
DESCR = {'idp': 'idpsso', 'sp': 'spsso', 'aa': 'attribute_authority'}
CATEGORY = 'http://macedir.org/entity-category'
SIGNED_ROOT = 'urn:oasis:names:tc:SAML:2.0:metadata:EntitiesDescriptor'


def spec_strategy():
    from hypothesis import strategies as st
    vu = st.sampled_from([None, None, 'past', 'future'])
    ep = st.tuples(st.integers(0, 4), st.sampled_from(['/a', '/b', '/c']), st.integers(0, 3)).map(list)
    keys = st.lists(st.tuples(st.sampled_from(['signing', 'encryption', None]), st.lists(st.integers(0, 9), min_size=1, max_size=2, unique=True)).map(list), max_size=3)

    def role(services):
        # the first service of a role is mandatory in the schema (SingleSignOnService, AssertionConsumerService, AttributeService)
        return st.fixed_dictionaries(dict((s, st.lists(ep, min_size=1 if k == 0 else 0, max_size=3)) for k, s in enumerate(services)), optional={}).flatmap(
            lambda eps: st.fixed_dictionaries({'eps': st.just(eps), 'keys': keys, 'protocols': st.sampled_from(['2', '2', '2', '1', '1+2'])}))
    req = st.fixed_dictionaries({'name': st.sampled_from(['urn:oid:2.5.4.42', 'urn:oid:2.5.4.4', 'urn:oid:0.9.2342.19200300.100.1.3']), 'required': st.booleans()})
    entity = st.fixed_dictionaries({'id': st.integers(0, 4), 'valid_until': vu, 'cats': st.lists(st.sampled_from(['urn:cat:a', 'urn:cat:b', 'urn:cat:c']), max_size=3, unique=True),
                                    'cats_layout': st.integers(0, 2), 'other_attr': st.booleans(),
                                    'requested': st.lists(req, max_size=3)},
                                   optional={'idp': role(ROLE_SERVICES['idp']), 'sp': role(ROLE_SERVICES['sp']), 'aa': role(ROLE_SERVICES['aa'])}
                                   ).filter(lambda e: any(r in e for r in ('idp', 'sp', 'aa')))   # an EntityDescriptor needs at least one role descriptor
    source = st.fixed_dictionaries({'root': st.sampled_from(['entities', 'entities', 'entity']), 'valid_until': vu, 'entities': st.lists(entity, min_size=1, max_size=4),
                                    'how': st.sampled_from(['inline', 'local', 'extern']), 'signed': st.sampled_from([None, None, 'valid', 'tampered', 'wrongkey']),
                                    'nested': st.sampled_from([False, False, False, True]),
                                    # entry point: MetadataStore.load(...) / imp({...}) (dict style) / imp([{'class':..., 'metadata': [...]}]) (list style)
                                    'via': st.sampled_from(['load', 'load', 'imp-dict', 'imp-list']),
                                    # spelling of the validUntil instants: number of fractional-second digits
                                    # per-source option of remote sources: do not apply the validUntil test to this source (and to this source only)
                                    'no_check': st.sampled_from([False, False, True]),
                                    'vu_frac': st.sampled_from([0, 0, 1, 3, 6, 7, 9]), 'vu_zone': st.sampled_from([None, None, None, '+00:00', '+02:00', '-05:00'])})
    return st.fixed_dictionaries({'sources': st.lists(source, min_size=1, max_size=3)})


_FRAC = [0]
_ZONE = [None]


def when(v):
    off = {None: 0, '+00:00': 0, '+02:00': 7200, '-05:00': -18000}[_ZONE[0]] if v == 'past' else 0
    t = {None: None, 'past': build.ts(NOW - 3600 + off), 'future': build.ts(NOW + 3600 + off)}[v]
    if t is None:
        return t
    if _FRAC[0]:
        t = t[:-1] + '.' + '1234567890'[:_FRAC[0]] + 'Z'
    if _ZONE[0] and v == 'past':
        # the same instant written in local time with a numeric zone offset (legal xs:dateTime).  Only instants that have passed are spelled this way: the library
        # refuses the spelling elsewhere, and refusing a source is as good as not serving it, whereas an unexpired source would have to be served
        t = t[:-1] + _ZONE[0]
    return t


def loc(eid, role, svc, path):
    return '%s/%s/%s%s' % (IDS[eid].replace('urn:', 'https://urn.example.org/'), role, svc, path)


ASSURANCE = 'urn:oasis:names:tc:SAML:attribute:assurance-certification'
ASSURANCE_VALUES = ['https://refeds.org/sirtfi', 'urn:assurance:x']


def render_entity(e):
    d = {'entityid': IDS[e['id']], 'valid_until': when(e['valid_until'])}
    if e['cats'] or e.get('other_attr'):
        # the same attribute Name may be spread over several Attribute elements and several EntityAttributes blocks
        def attr(name, vals):
            return ('<saml:Attribute xmlns:saml="urn:oasis:names:tc:SAML:2.0:assertion" Name="%s" NameFormat="urn:oasis:names:tc:SAML:2.0:attrname-format:uri">%s</saml:Attribute>'
                    % (name, ''.join('<saml:AttributeValue>%s</saml:AttributeValue>' % c for c in vals)))

        def block(inner):
            return '<mdattr:EntityAttributes xmlns:mdattr="urn:oasis:names:tc:SAML:metadata:attribute">%s</mdattr:EntityAttributes>' % inner
        other = attr(ASSURANCE, ASSURANCE_VALUES) if e.get('other_attr') else ''
        layout = e.get('cats_layout', 0) if len(e['cats']) > 1 else 0
        if not e['cats']:
            d['extensions'] = block(other)
        elif layout == 0:
            d['extensions'] = block(attr(CATEGORY, e['cats']) + other)
        elif layout == 1:
            d['extensions'] = block(attr(CATEGORY, e['cats'][:1]) + other + ''.join(attr(CATEGORY, [c]) for c in e['cats'][1:]))
        else:
            d['extensions'] = block(attr(CATEGORY, e['cats'][:1])) + block(other + attr(CATEGORY, e['cats'][1:]))
    for role in ('idp', 'sp', 'aa'):
        if role not in e:
            continue
        r = e[role]
        prot = {'2': SAML2, '1': SAML1, '1+2': SAML1 + ' ' + SAML2}[r['protocols']]
        rd = {'protocols': prot, 'keys': [(u, idxs) for u, idxs in r['keys']]}
        for svc, eps in r['eps'].items():
            rd[svc] = [(BIND[b], loc(e['id'], role, svc, p), i) for b, p, i in eps]
        if role == 'idp':
            rd.setdefault('sso', [])
        if role == 'sp' and e['requested']:
            rd['attribute_consuming'] = [{'requested': [{'name': q['name'], 'name_format': 'urn:oasis:names:tc:SAML:2.0:attrname-format:uri', 'required': q['required']} for q in e['requested']]}]
        if role == 'aa':
            rd = {'protocols': prot, 'keys': rd['keys'], 'attribute_service': [(b, l) for b, l, i in rd.get('attribute_service', [])]}
        else:
            for svc in ('sso', 'slo', 'ars', 'mnid'):
                if svc in rd and svc != 'ars':
                    rd[svc] = [(b, l) for b, l, i in rd[svc]]
        d[role] = rd
    return d


def render_source(src, n):
    ents = [render_entity(e) for e in src['entities']]
    if src['root'] == 'entity':
        xml = build.entity_xml(dict(ents[0], valid_until=ents[0]['valid_until'] or when(src['valid_until'])))
        return xml
    sid = 'md-%d' % n
    sig = ''
    if src['signed'] and src['how'] == 'extern':
        sig = build.sig_template(sid, 'sha256')
    if src.get('nested') and len(ents) > 1:
        # the last entity sits in a nested EntitiesDescriptor group (allowed by the metadata schema)
        inner = build.entities_xml(ents[-1:], name='nested-group')
        xml = build.entities_xml(ents[:-1], valid_until=when(src['valid_until']), id=sid, signature=sig)
        xml = xml[:-len('</md:EntitiesDescriptor>')] + inner + '</md:EntitiesDescriptor>'
    else:
        xml = build.entities_xml(ents, valid_until=when(src['valid_until']), id=sid, signature=sig)
    if sig:
        xml = build.sign(xml, SIGNED_ROOT, sid, 7 if src['signed'] != 'wrongkey' else 8)
        if src['signed'] == 'tampered':
            xml = xml.replace('/idp/sso', '/idp/sso-evil').replace('/sp/acs', '/sp/acs-evil')
            if '-evil' not in xml:
                xml = xml.replace('entityID="', 'entityID="x', 1)
    return xml


# ------------------------------------------------------------------ reference model
def model_of_source(src):
    """entity id -> declaration, for what this source contributes (None if the source contributes nothing)"""
    if src['root'] == 'entity':
        ents = src['entities'][:1]
        doc_vu = None
        ents = [dict(ents[0], valid_until=ents[0]['valid_until'] or src['valid_until'])]
    else:
        ents = src['entities']
        doc_vu = src['valid_until']
    nocheck = bool(src.get('no_check')) and src['how'] == 'extern' and src.get('via', 'load') != 'imp-list'
    if doc_vu == 'past' and not nocheck:
        return None
    if src['how'] == 'extern' and src['root'] == 'entities' and src['signed'] in ('tampered', 'wrongkey'):
        return None
    out = {}
    for e in ents:
        if e['valid_until'] == 'past' and not nocheck:
            continue
        if IDS[e['id']] in out:
            continue        # first declaration within a document wins
        roles = {}
        for role in ('idp', 'sp', 'aa'):
            if role in e and e[role]['protocols'] != '1':
                roles[role] = e[role]
        if not roles:
            continue
        out[IDS[e['id']]] = {'roles': roles, 'cats': e['cats'], 'other_attr': bool(e.get('other_attr')), 'requested': e['requested'] if 'sp' in roles else None, 'id': e['id']}
    return out


def endpoints(decl, role, svc, binding):
    r = decl['roles'].get(role)
    if r is None:
        return None
    eps = r['eps'].get(svc, [])
    indexed = (role == 'sp' and svc == 'acs') or svc == 'ars'
    return sorted((loc(decl['id'], role, svc, p), str(i) if indexed else None) for b, p, i in eps if BIND[b] == binding)


def certs_of(decl, descriptor, use):
    roles = ['sp', 'idp', 'aa'] if descriptor == 'any' else [k for k, v in DESCR.items() if v == descriptor]
    out = []
    found_role = False
    for role in roles:
        r = decl['roles'].get(role)
        if r is None:
            continue
        found_role = True
        for u, idxs in r['keys']:
            if u == use or u is None:
                for i in idxs:
                    b = world.cert_body(i)
                    if b not in out:
                        out.append(b)
    if descriptor != 'any' and not found_role:
        return None
    return sorted(out)


class FakeHTTP(object):
    def __init__(self, docs):
        self.docs = docs

    def send(self, url, **kw):
        class R(object):
            pass
        r = R()
        if url in self.docs:
            r.status_code = 200
            r.content = self.docs[url]
            r.text = self.docs[url]
        else:
            r.status_code = 404
            r.content = r.text = ''
        return r


def norm_cert(c):
    return ''.join(c.split())


def run(case):
    from saml2_tophat.mdstore import MetadataStore, MetaDataExtern
    from saml2_tophat.attribute_converter import ac_factory
    from saml2_tophat.config import Config
    from saml2_tophat.s_utils import UnknownSystemEntity, UnsupportedBinding
    world.install_inprocess_tool()
    clock.install()
    clock.set_now(NOW)
    conf = Config()
    conf.xmlsec_binary = world.XMLSEC
    mds = MetadataStore(ac_factory(), conf)
    models = []
    feats = set()
    docs = {}
    for n, src in enumerate(case['sources']):
        _FRAC[0] = src.get('vu_frac', 0)
        _ZONE[0] = src.get('vu_zone') if src['root'] == 'entity' else None      # (a whole EntitiesDescriptor is refused for the spelling: valid entities next to the expired one would be lost)
        xml = render_source(src, n)
        _FRAC[0] = 0
        _ZONE[0] = None
        m = model_of_source(src)
        via = src.get('via', 'load')
        try:
            if src['how'] == 'inline':
                if via == 'imp-dict':
                    mds.imp({'inline': [xml]})
                elif via == 'imp-list':
                    mds.imp([{'class': 'saml2_tophat.mdstore.InMemoryMetaData', 'metadata': [(xml,)]}])
                else:
                    mds.load('inline', xml)
            elif src['how'] == 'local':
                p = os.path.join(os.getcwd(), 'md-%d-%d.xml' % (os.getpid(), n))
                with open(p, 'w', encoding='utf-8') as f:
                    f.write(xml)
                if via == 'imp-dict':
                    mds.imp({'local': [p]})
                elif via == 'imp-list':
                    mds.imp([{'class': 'saml2_tophat.mdstore.MetaDataFile', 'metadata': [(p,)]}])
                else:
                    mds.load('local', p)
            else:
                url = 'https://md.example.org/feed-%d' % n
                docs[url] = xml
                mds.http = FakeHTTP(docs)
                extra = {'check_validity': False} if src.get('no_check') else {}
                if via == 'imp-dict':
                    mds.imp({'remote': [dict({'url': url, 'cert': world.crt(7)}, **extra)]})
                elif via == 'imp-list':
                    mds.imp([{'class': 'saml2_tophat.mdstore.MetaDataExtern', 'metadata': [(url, world.crt(7))]}])
                else:
                    mds.load('remote', url=url, cert=world.crt(7), **extra)
            loaded = True
        except Exception as e:
            loaded = False
            if m:
                raise Violation('valid-source-not-loaded', 'source %d (%s, %s, signed=%s) should contribute %r but loading raised %s: %s'
                                % (n, src['how'], src['root'], src['signed'], sorted(m), type(e).__name__, str(e)[:120]))
        if m:
            models.append(m)
        if m is None:
            feats.add('dead-source')
        if src['signed'] and src['how'] == 'extern' and src['root'] == 'entities':
            feats.add('signed-' + src['signed'])
        for e in src['entities']:
            if e['valid_until'] == 'past':
                feats.add('expired-entity')
            if len([r for r in ('idp', 'sp', 'aa') if r in e]) >= 2:
                feats.add('multi-role')
    ids_seen = [i for m in models for i in m]
    if len(ids_seen) != len(set(ids_seen)):
        feats.add('duplicate-id')

    def decls(eid):
        return [m[eid] for m in models if eid in m]
    # ---- queries
    known = set(ids_seen)
    got_keys = set(mds.keys())
    if got_keys != known:
        raise Violation('keys-differ', 'store knows %r, valid unexpired metadata declares %r' % (sorted(got_keys), sorted(known)))
    # role listings: an entity is listed under a role iff some source that defines it declares the role (sources are searched per entity: any defining source may answer)
    for fname, role in (('identity_providers', 'idp'), ('service_providers', 'sp'), ('attribute_authorities', 'aa')):
        got = set(getattr(mds, fname)())
        must = set(e for e in known if all(role in d['roles'] for d in decls(e)))
        may = set(e for e in known if any(role in d['roles'] for d in decls(e)))
        if not (must <= got <= may):
            raise Violation('role-listing-differs', '%s() = %r; entities declaring that role in every defining source: %r, in some: %r' % (fname, sorted(got), sorted(must), sorted(may)))
    # bindings(): for a declared service the store answers (what exactly is returned is checked through the service accessors below)
    for eid in sorted(known):
        for d in decls(eid)[:1]:
            for role, typ in (('idp', 'idpsso_descriptor'), ('sp', 'spsso_descriptor')):
                svc = {'idp': ('sso', 'single_sign_on_service'), 'sp': ('acs', 'assertion_consumer_service')}[role]
                if role in d['roles'] and d['roles'][role]['eps'].get(svc[0]) and len(decls(eid)) == 1:
                    try:
                        b = mds.bindings(eid, typ, svc[1])
                    except Exception as e:
                        b = 'raised %s' % type(e).__name__
                    if not b:
                        raise Violation('bindings-accessor-empty', 'bindings(%s, %s, %s) = %r although the entity declares %d such endpoint(s)' % (eid, typ, svc[1], b, len(d['roles'][role]['eps'][svc[0]])))
    helpers = [('single_sign_on_service', 'idp', 'sso', None), ('single_logout_service', 'idp', 'slo', 'idpsso'), ('single_logout_service', 'sp', 'slo', 'spsso'),
               ('artifact_resolution_service', 'idp', 'ars', 'idpsso'), ('assertion_consumer_service', 'sp', 'acs', None), ('manage_name_id_service', 'sp', 'mnid', 'spsso'),
               ('attribute_service', 'aa', 'attribute_service', None)]
    for eid in IDS + ['https://nobody.example.org']:
        ds = decls(eid)
        for fname, role, svc, typ in helpers:
            for binding in BIND:
                f = getattr(mds, fname)
                try:
                    res = f(eid, binding, typ) if typ else f(eid, binding)
                    out = ('ok', sorted((s['location'], s.get('index')) for s in res))
                except UnknownSystemEntity:
                    out = ('unknown',)
                except UnsupportedBinding:
                    out = ('unsupported',)
                except Exception as e:
                    out = ('exc', type(e).__name__)
                if not ds:
                    if out[0] != 'unknown':
                        raise Violation('unknown-entity-answered', '%s(%s, %s): entity is declared by no valid source, got %r' % (fname, eid, binding.split(':')[-1], out))
                    continue
                cands = [endpoints(d, role, svc, binding) for d in ds]
                if out[0] == 'ok':
                    if out[1] not in [c for c in cands if c]:
                        raise Violation('service-differs', '%s(%s, %s) = %r, declared (per defining source): %r' % (fname, eid, binding.split(':')[-1], out[1], cands))
                elif out[0] == 'unknown':
                    if any(c is not None for c in cands):
                        raise Violation('known-entity-reported-unknown', '%s(%s, %s): UnknownSystemEntity although the entity is declared with that role (%r)' % (fname, eid, binding.split(':')[-1], cands))
                elif out[0] == 'unsupported':
                    if any(c for c in cands):
                        raise Violation('declared-binding-unsupported', '%s(%s, %s): UnsupportedBinding although declared: %r' % (fname, eid, binding.split(':')[-1], cands))
                else:
                    raise Violation('service-raises', '%s(%s, %s) raised %s' % (fname, eid, binding.split(':')[-1], out[1]))
        for descriptor in ('any', 'idpsso', 'spsso', 'attribute_authority'):
            for use in ('signing', 'encryption'):
                try:
                    res = ('ok', sorted(set(norm_cert(c) for c in mds.certs(eid, descriptor, use))))
                except KeyError:
                    res = ('keyerror',)
                except Exception as e:
                    res = ('exc', type(e).__name__)
                if not ds:
                    if res[0] == 'ok' and res[1]:
                        raise Violation('certs-for-unknown-entity', 'certs(%s) = %d certificates for an entity no valid source declares' % (eid, len(res[1])))
                    continue
                cands = [certs_of(d, descriptor, use) for d in ds]
                if res[0] == 'ok':
                    if res[1] not in [c for c in cands if c is not None]:
                        raise Violation('certs-differ', 'certs(%s, %s, %s): %d certificates %r..., declared per source %r'
                                        % (eid, descriptor, use, len(res[1]), [c[60:72] for c in res[1]], [None if c is None else [x[60:72] for x in c] for c in cands]))
                elif res[0] == 'keyerror':
                    if all(c is not None for c in cands):
                        raise Violation('certs-keyerror', 'certs(%s, %s, %s) raised KeyError although the role is declared' % (eid, descriptor, use))
                else:
                    raise Violation('certs-raises', 'certs(%s, %s, %s) raised %s' % (eid, descriptor, use, res[1]))
        if ds:
            cats = sorted(mds.entity_categories(eid))
            if cats not in [sorted(d['cats']) for d in ds]:
                raise Violation('entity-categories-differ', 'entity_categories(%s) = %r, declared %r' % (eid, cats, [d['cats'] for d in ds]))
            ea = mds.entity_attributes(eid)
            got_ea = dict((k, sorted(v)) for k, v in ea.items())
            exp_ea = []
            for d in ds:
                x = {}
                if d['cats']:
                    x[CATEGORY] = sorted(d['cats'])
                if d.get('other_attr'):
                    x[ASSURANCE] = sorted(ASSURANCE_VALUES)
                exp_ea.append(x)
            if got_ea not in exp_ea:
                raise Violation('entity-attributes-differ', 'entity_attributes(%s) = %r, declared %r' % (eid, got_ea, exp_ea))
            ar = mds.attribute_requirement(eid)
            got = None if ar is None else (sorted(a['name'] for a in ar['required']), sorted(a['name'] for a in ar['optional']))
            exp = []
            for d in ds:
                if d['requested'] is None or not d['requested']:
                    exp.append(None)
                    if d['requested'] is not None:
                        exp.append(([], []))
                else:
                    exp.append((sorted(q['name'] for q in d['requested'] if q['required']), sorted(q['name'] for q in d['requested'] if not q['required'])))
            if got not in exp:
                raise Violation('attribute-requirement-differs', 'attribute_requirement(%s) = %r, declared %r' % (eid, got, exp))
    for role, descr in DESCR.items():
        got = set(mds.with_descriptor(descr).keys())
        exp = set(eid for m in models for eid, d in m.items() if role in d['roles'])
        if not (got <= exp) or not all(any(role in d['roles'] for d in decls(e)) for e in got):
            raise Violation('with-descriptor-differs', 'with_descriptor(%s) = %r, declared %r' % (descr, sorted(got), sorted(exp)))
    return '+'.join(sorted(feats)) or 'plain', bool(feats)


# ------------------------------------------------------------------ config round trip
def conf_strategy():
    from hypothesis import strategies as st
    ep = st.tuples(st.sampled_from(['https://x.example.org/a', 'https://x.example.org/b', 'https://x.example.org/c?d=1']), st.integers(0, 3)).map(list)
    # explicit endpoint indexes (documented 3-tuple form): none, or distinct values out of 0 / 1 / 5 as int or str, assigned in order
    idx = st.one_of(st.none(), st.permutations([0, 1, 5, '0', '7']))
    return st.fixed_dictionaries({'kind': st.sampled_from(['sp', 'idp']), 'acs': st.lists(ep, min_size=1, max_size=3, unique_by=lambda e: (e[0], e[1])), 'acs_index': idx, 'valid_for': st.sampled_from([None, None, 1, 24]), 'tz': st.sampled_from([None, None, 'PST8', 'JST-9']),
                                  'slo': st.lists(ep, max_size=2, unique_by=lambda e: (e[0], e[1])), 'key': st.integers(0, 9),
                                  'enc': st.lists(st.integers(0, 9), max_size=2, unique=True)})


def run_conf(case):
    if case.get('tz'):
        with clock.tz(case['tz']):
            return _run_conf(dict(case, tz=None))
    return _run_conf(case)


def _run_conf(case):
    from saml2_tophat.mdstore import MetadataStore
    from saml2_tophat.attribute_converter import ac_factory
    from saml2_tophat.config import Config
    world.install_inprocess_tool()
    clock.install()
    clock.set_now(NOW)
    B4 = [world.POST, world.REDIRECT, world.SOAP, world.ARTIFACT]
    eid = 'https://x.example.org/entity'
    explicit = {}
    if case['kind'] == 'sp' and case.get('acs_index'):
        seen = set()
        acs_conf = []
        for (u, b), i in zip(case['acs'], case['acs_index']):
            if str(i) in seen:
                acs_conf.append((u, B4[b]))
                continue
            seen.add(str(i))
            acs_conf.append((u, B4[b], i))
            explicit[(u, B4[b])] = str(i)
    else:
        acs_conf = [(u, B4[b]) for u, b in case['acs']]
    if case['kind'] == 'sp':
        confd = world.sp_conf({'entityid': eid, 'acs': acs_conf, 'slo': [(u, B4[b]) for u, b in case['slo']], 'key': case['key'], 'enc_keys': case['enc']})
    else:
        confd = world.idp_conf({'entityid': eid, 'sso': [(u, B4[b]) for u, b in case['acs']], 'slo': [(u, B4[b]) for u, b in case['slo']], 'key': case['key']})
    if case.get('valid_for'):
        confd['valid_for'] = case['valid_for']      # hours: the generated metadata carries validUntil = now + valid_for
    xml = world.metadata_from_conf(confd, case['kind'])
    conf = Config()
    conf.xmlsec_binary = world.XMLSEC
    mds = MetadataStore(ac_factory(), conf)
    mds.load('inline', xml)
    if list(mds.keys()) != [eid]:
        raise Violation('roundtrip-entity-lost', 'metadata generated from a %s configuration loads as %r' % (case['kind'], list(mds.keys())))
    for b in B4:
        exp = sorted(u for u, bb in case['acs'] if B4[bb] == b)
        try:
            res = mds.assertion_consumer_service(eid, b) if case['kind'] == 'sp' else mds.single_sign_on_service(eid, b)
            got = sorted(s['location'] for s in res)
        except Exception as e:
            got = []
        if got != exp:
            raise Violation('roundtrip-endpoints-differ', '%s endpoints for %s: configured %r, served %r' % (case['kind'], b.split(':')[-1], exp, got))
        if explicit and case['kind'] == 'sp':
            served = dict(((s['location'], b), s.get('index')) for s in (res if got else []))
            for (u, bb), i in explicit.items():
                if bb == b and served.get((u, b)) != i:
                    raise Violation('roundtrip-index-differs', 'assertion consumer endpoint %s (%s) configured with index %r is served with index %r' % (u, b.split(':')[-1], i, served.get((u, b))))
        exp = sorted(u for u, bb in case['slo'] if B4[bb] == b)
        try:
            got = sorted(s['location'] for s in mds.single_logout_service(eid, b, 'spsso' if case['kind'] == 'sp' else 'idpsso'))
        except Exception:
            got = []
        if got != exp:
            raise Violation('roundtrip-slo-differ', 'logout endpoints for %s: configured %r, served %r' % (b.split(':')[-1], exp, got))
    sign = [norm_cert(c) for c in mds.certs(eid, 'any', 'signing')]
    if sign != [world.cert_body(case['key'])]:
        raise Violation('roundtrip-signing-cert-differs', 'signing certificates served %r, configured key %d' % ([c[60:72] for c in sign], case['key']))
    if case['kind'] == 'sp':
        enc = sorted(norm_cert(c) for c in mds.certs(eid, 'any', 'encryption'))
        exp = sorted(world.cert_body(i) for i in case['enc'])
        if enc != exp:
            raise Violation('roundtrip-encryption-cert-differs', 'encryption certificates served %r, configured %r' % ([c[60:72] for c in enc], case['enc']))
    return case['kind'], True


# ------------------------------------------------------------------ a signed source refreshed in place
def refresh_cases():
    out = []
    for backend in ('remote', 'local'):
        for second in ('tampered', 'wrongkey', 'other-valid', 'unsigned-other'):
            for first in ('valid', 'tampered'):
                out.append({'backend': backend, 'first': first, 'second': second})
    return out


def run_refresh(case):
    """a source object configured with a verification certificate is loaded, then loaded again (the application's periodic refresh) after the document behind it
    changed: whatever fails verification contributes nothing, before or after"""
    import tempfile, shutil
    from saml2_tophat.mdstore import MetaDataExtern, MetaDataFile
    from saml2_tophat.attribute_converter import ac_factory
    from saml2_tophat.config import Config
    from saml2_tophat.sigver import security_context
    world.install_inprocess_tool()
    clock.install()
    clock.set_now(1700000000)
    good_e, new_e, evil_e = 'https://fed-a.example.org/idp', 'https://fed-b.example.org/idp', 'https://fed-evil.example.org/idp'

    def doc(kind):
        sid = 'md-r'
        ents = [{'entityid': good_e, 'idp': {'keys': [('signing', 4)]}}]
        if kind in ('other-valid', 'unsigned-other'):
            ents = [{'entityid': new_e, 'idp': {'keys': [('signing', 5)]}}]
        if kind == 'unsigned-other':
            return build.entities_xml(ents, id=sid)
        xml = build.sign(build.entities_xml(ents, id=sid, signature=build.sig_template(sid, 'sha256')), SIGNED_ROOT, sid, 8 if kind == 'wrongkey' else 7)
        if kind == 'wrongkey':
            xml = xml.replace(good_e, evil_e)            # (signed by a key the consumer does not trust)
            xml = build.sign(build.entities_xml([{'entityid': evil_e, 'idp': {'keys': [('signing', 4)]}}], id=sid, signature=build.sig_template(sid, 'sha256')), SIGNED_ROOT, sid, 8)
        if kind == 'tampered':
            xml = xml.replace(good_e, evil_e)
        return xml
    verified = {'valid': [good_e], 'other-valid': [new_e], 'unsigned-other': [new_e], 'tampered': [], 'wrongkey': []}
    conf = Config()
    conf.xmlsec_binary = world.XMLSEC
    sec = security_context(conf)
    d = tempfile.mkdtemp(prefix='verif-c16-')
    try:
        docs = {}
        if case['backend'] == 'remote':
            src = MetaDataExtern(ac_factory(), 'https://md.example.org/feed', sec, world.crt(7), FakeHTTP(docs))
        else:
            path = os.path.join(d, 'feed.xml')
            src = MetaDataFile(ac_factory(), path, cert=world.crt(7), security=sec)
        allowed = set()
        for step in (case['first'], case['second']):
            xml = doc(step)
            docs['https://md.example.org/feed'] = xml
            if case['backend'] == 'local':
                with open(path, 'w') as f:
                    f.write(xml)
            try:
                src.load()
            except Exception:
                pass
            allowed |= set(verified[step])
            served = set(src.keys())
            if not served <= allowed:
                raise Violation('unverified-document-contributes', '%s source with a verification certificate, documents %s then %s: after loading the %s document the source serves %r; '
                                'only %r come from documents whose signature verified (or that carry none)' % (case['backend'], case['first'], case['second'], step, sorted(served), sorted(allowed)))
    finally:
        shutil.rmtree(d, ignore_errors=True)
    return 'refresh|%s|%s-then-%s' % (case['backend'], case['first'], case['second']), True



def parts(tier):
    quick = tier != 'thorough'
    return [Part('federations', run, strategy=spec_strategy, examples=2500 if quick else 60000,
                 mandatory=[]),
            Part('source-refresh', run_refresh, cases=refresh_cases, exhaustive=True),
            Part('config-roundtrip', run_conf, strategy=conf_strategy, examples=600 if quick else 10000)]
