"""C09 - the IdP answers only to endpoints registered for the requesting SP.

Generated SP metadata layouts (several ACS / SLO / ManageNameID endpoints, bindings, indexes, near-miss URLs, two SPs)
x hostile request variants; the (binding, destination) the IdP derives is judged against the harness's own reference
model of the metadata (the spec the metadata XML was rendered from)."""
from harness.runner import Part, Violation
from harness import build, world

PROPERTY = 'C09'
LEVEL = 'exploration'
RULE = ('Hypothesis: 2 SPs each with 1-4 AssertionConsumerService, 0-3 SingleLogoutService, 0-2 ManageNameIDService endpoints over POST/Redirect/Artifact/PAOS/SOAP with locations '
        'from a pool of look-alike URLs (case, trailing slash, query, port, scheme, other SP), indexes and isDefault x request {AuthnRequest, LogoutRequest, ManageNameIDRequest} with '
        'consumer URL {registered, registered for another binding, near miss, other SP\'s, scheme-less / relative / non-http(s) URI, absent}, index {registered, unknown, absent}, ProtocolBinding {given, absent, unsupported}, '
        'issuer {known, other SP, unknown}, explicit bindings argument or not, answer derived through response_args / pick_binding(request=) / pick_binding(request=, entity_id=); sequences of 1-4 requests on one IdP. '
        'Non-trivial = URL or index supplied, or issuer unknown; distinct = distinct case.')
ASSUMPTIONS = ['reference model = the spec dictionaries the metadata XML is rendered from (harness templates, not the library writer)',
               'requests are built as objects and passed to Server.response_args (what an IdP front-end does after parsing)']

B = {'post': world.POST, 'redirect': world.REDIRECT, 'artifact': world.ARTIFACT, 'paos': world.PAOS, 'soap': world.SOAP}
URLS = ['https://sp1.example.org/acs', 'https://sp1.example.org/acs/', 'https://SP1.example.org/acs', 'https://sp1.example.org/acs?x=1', 'https://sp1.example.org:443/acs',
        'https://sp1.example.org/acs2', 'http://sp1.example.org/acs', 'https://sp1.example.org/acs/post', 'https://sp2.example.org/acs', 'https://sp2.example.org/acs/post',
        'https://sp1.example.org.evil.example.net/acs', 'https://sp1.example.org/slo', 'https://sp2.example.org/slo']
SPS = ['https://sp1.example.org/sp', 'https://sp2.example.org/sp']


# supplied consumer URLs that are legal xs:anyURI values but not http(s) URLs (never registered by any SP here)
ODD_URLS = ['//evil.example.org/acs', 'evil.example.org/acs', '/acs/post', 'javascript:alert(1)', 'data:text/html,x', 'ftp://sp1.example.org/acs', 'urn:x:acs', 'HTTPS://sp1.example.org/acs', ' https://sp1.example.org/acs']


def case_strategy():
    from hypothesis import strategies as st
    url = st.sampled_from(URLS)
    acs_b = st.sampled_from(['post', 'post', 'redirect', 'artifact', 'paos'])
    slo_b = st.sampled_from(['redirect', 'post', 'soap'])

    def eps(b, lo, hi):
        return st.lists(st.tuples(b, url, st.one_of(st.none(), st.integers(0, 5)), st.one_of(st.none(), st.booleans())).map(list), min_size=lo, max_size=hi)
    sp = st.fixed_dictionaries({'acs': eps(acs_b, 1, 4), 'slo': eps(slo_b, 0, 3), 'mnid': eps(slo_b, 0, 2)})
    req = st.fixed_dictionaries({'typ': st.sampled_from(['authn', 'authn', 'authn', 'logout', 'mnid']), 'issuer': st.sampled_from([0, 0, 0, 1, 'unknown']),
                                 'url': st.one_of(st.none(), url, st.just('@registered'), st.just('@other-sp'), st.sampled_from(ODD_URLS)), 'index': st.one_of(st.none(), st.none(), st.integers(0, 7), st.just('@registered'), st.just('@registered')),
                                 'protocol_binding': st.one_of(st.none(), st.none(), st.just('@registered'), st.sampled_from(sorted(B)), st.just('urn:unsupported:binding')),
                                 'bindings': st.one_of(st.none(), st.none(), st.none(), st.lists(st.sampled_from(sorted(B)), min_size=1, max_size=4, unique=True)),
                                 'both': st.booleans(),
                                 # which public call derives the answer address: response_args(request) or pick_binding(service, ..., request=, [entity_id=issuer]) as example IdPs call it
                                 'via': st.sampled_from(['response_args', 'response_args', 'pick_binding', 'pick_binding+entity_id'])})
    return st.fixed_dictionaries({'sps': st.tuples(sp, sp).map(list), 'requests': st.lists(req, min_size=1, max_size=4)})


def registered(model, issuer, service):
    """[(binding uri, location, index)] for the issuer's service in the reference model"""
    if issuer not in (0, 1):
        return None
    return [(B[e[0]], e[1], None if e[2] is None else str(e[2])) for e in model[issuer][service]]


def run(case):
    from saml2_tophat import samlp, saml
    from saml2_tophat.s_utils import UnknownSystemEntity, UnsupportedBinding
    mds = []
    for i, sp in enumerate(case['sps']):
        # indexes: the metadata writer needs an index on indexed endpoints; absent -> position
        acs = [(B[e[0]], e[1], e[2] if e[2] is not None else 10 + j, e[3]) for j, e in enumerate(sp['acs'])]
        for j, e in enumerate(sp['acs']):
            if e[2] is None:
                e[2] = 10 + j
        mds.append(build.entity_xml({'entityid': SPS[i], 'sp': {'keys': [('signing', i)], 'acs': acs,
                                                                 'slo': [(B[e[0]], e[1]) for e in sp['slo']], 'mnid': [(B[e[0]], e[1]) for e in sp['mnid']]}}))
    idp = world.make_idp(world.idp_conf(dict(world.DEFAULT_IDP), [build.entities_xml([])[:0] + '<md:EntitiesDescriptor xmlns:md="urn:oasis:names:tc:SAML:2.0:metadata">%s</md:EntitiesDescriptor>' % ''.join(mds)]))
    model = case['sps']
    nt = False
    labels = set()
    for n, rq in enumerate(case['requests']):
        issuer = rq['issuer']
        ent = SPS[issuer] if issuer in (0, 1) else 'https://nobody.example.org/sp'
        service = {'authn': 'acs', 'logout': 'slo', 'mnid': 'mnid'}[rq['typ']]
        url = rq['url']
        if url == '@registered':
            own = registered(model, issuer if issuer in (0, 1) else 0, 'acs')
            url = own[n % len(own)][1]
        elif url == '@other-sp':
            other = registered(model, 1 - issuer if issuer in (0, 1) else 1, 'acs')
            url = other[0][1]
        own_acs = registered(model, issuer if issuer in (0, 1) else 0, 'acs')
        index = None if rq['index'] is None else (own_acs[(n + 1) % len(own_acs)][2] if rq['index'] == '@registered' else str(rq['index']))
        pb = rq['protocol_binding']
        pb = own_acs[n % len(own_acs)][0] if pb == '@registered' else B.get(pb, pb)
        iss = saml.Issuer(text=ent)
        if rq['typ'] == 'authn':
            if url is not None and index is not None and not rq.get('both'):
                index = None        # the profile says one or the other; the schema type allows both attributes, so hostile requests with both are generated too ('both')
            msg = samlp.AuthnRequest(id='id-%d' % n, issuer=iss, assertion_consumer_service_url=url, assertion_consumer_service_index=index, protocol_binding=pb)
        elif rq['typ'] == 'logout':
            url = index = None
            msg = samlp.LogoutRequest(id='id-%d' % n, issuer=iss, name_id=saml.NameID(text='x'))
        else:
            url = index = None
            msg = samlp.ManageNameIDRequest(id='id-%d' % n, issuer=iss, name_id=saml.NameID(text='x'), terminate=samlp.Terminate())
        bindings = None if rq['bindings'] is None else [B[b] for b in rq['bindings']]
        if url is not None or index is not None or issuer == 'unknown':
            nt = True
        via = rq.get('via', 'response_args')
        try:
            if via == 'response_args' or rq['typ'] != 'authn':
                info = idp.response_args(msg, bindings)
            else:
                kw = {'entity_id': ent} if via == 'pick_binding+entity_id' else {}
                b_, d_ = idp.pick_binding('assertion_consumer_service', bindings, 'spsso', request=msg, **kw)
                info = {'binding': b_, 'destination': d_}
            err = None
        except Exception as e:
            info, err = None, e
        reg = registered(model, issuer, service)
        if info is None:
            labels.add('refused')
            continue
        binding, dest = info.get('binding'), info.get('destination')
        if bindings == [world.SOAP] and dest == '':
            labels.add('soap-shortcut')
            continue
        if reg is None:
            raise Violation('destination-for-unknown-requester', 'request %d: issuer %r is not in metadata, yet destination %r (%s) was produced' % (n, ent, dest, binding))
        if (binding, dest) not in [(b, l) for b, l, i in reg]:
            raise Violation('unregistered-destination', 'request %d (%s from %s): derived (%s, %r) is not registered for that service; registered: %r' % (n, rq['typ'], ent, binding, dest, reg))
        if rq['typ'] == 'authn':
            if url is not None and dest != url:
                raise Violation('supplied-url-not-honoured-nor-refused', 'request %d: consumer URL %r supplied, answered at %r' % (n, url, dest))
            if url is None and index is not None:
                if (binding, dest, index) not in reg:
                    if index not in [i for b, l, i in reg]:
                        raise Violation('unknown-index-answered', 'request %d: consumer index %s is not registered (registered %r), answered at %r' % (n, index, reg, dest))
                    raise Violation('index-answered-at-other-endpoint', 'request %d: consumer index %s answered at (%s, %r), registered %r' % (n, index, binding, dest, reg))
            admissible = bindings or ([pb] if pb else None)
            if admissible and binding not in admissible:
                raise Violation('binding-not-admissible', 'request %d: binding %s not among %r' % (n, binding, admissible))
        labels.add('answered' + ('|url' if url else '') + ('|index' if index else '') + ('' if via == 'response_args' or rq['typ'] != 'authn' else '|' + via))
    for n, rq in enumerate(case['requests']):
        if rq['typ'] == 'authn' and rq.get('both') and rq['url'] is not None and rq['index'] is not None:
            labels.add('url+index-request')
    return '+'.join(sorted(labels)), nt


def mdq_cases():
    out = []
    for answer in ('right', 'other-entity', 'not-found', 'garbage'):
        for url in (None, 'registered', 'unregistered'):
            for typ in ('authn', 'logout'):
                for warm in (False, True):
                    out.append({'answer': answer, 'url': url, 'typ': typ, 'warm': warm})
    return out


def run_mdq(case):
    """the on-demand metadata backend (MDQ): the requester's descriptor is fetched when first needed; whatever the server answers, a destination is only
    derived from a descriptor that really carries the requester's entityID"""
    from saml2_tophat import samlp, saml, mdstore
    X, Y = SPS
    mdx = {X: build.entity_xml({'entityid': X, 'sp': {'keys': [('signing', 0)], 'acs': [(B['post'], 'https://sp1.example.org/acs', 0, True)], 'slo': [(B['redirect'], 'https://sp1.example.org/slo')]}}),
           Y: build.entity_xml({'entityid': Y, 'sp': {'keys': [('signing', 1)], 'acs': [(B['post'], 'https://sp2.example.org/acs', 0, True)], 'slo': [(B['redirect'], 'https://sp2.example.org/slo')]}})}

    class Resp(object):
        def __init__(self, code, content):
            self.status_code, self.content, self.text = code, content, content

    def fake_get(url, **kw):
        import hashlib
        want = [e for e in mdx if url.endswith('{sha1}' + hashlib.sha1(e.encode('utf-8')).hexdigest())]
        if not want or case['answer'] == 'not-found':
            return Resp(404, '')
        if case['answer'] == 'garbage':
            return Resp(200, '<html>not metadata</html>')
        ent = want[0] if case['answer'] == 'right' else [e for e in mdx if e != want[0]][0]
        return Resp(200, mdx[ent])

    class FakeRequests(object):
        get = staticmethod(fake_get)
    conf = world.idp_conf(dict(world.DEFAULT_IDP), [])
    conf['metadata'] = {'mdq': ['https://mdq.example.org']}
    old = mdstore.requests
    mdstore.requests = FakeRequests
    try:
        idp = world.make_idp(conf)
        url = {None: None, 'registered': 'https://sp1.example.org/acs', 'unregistered': 'https://sp2.example.org/acs'}[case['url']]
        iss = saml.Issuer(text=X)
        if case['typ'] == 'authn':
            msg = samlp.AuthnRequest(id='id-1', issuer=iss, assertion_consumer_service_url=url)
        else:
            msg = samlp.LogoutRequest(id='id-1', issuer=iss, name_id=saml.NameID(text='x'))
        outs = []
        for _ in range(2 if case['warm'] else 1):
            try:
                info = idp.response_args(msg, None)
                outs.append((info.get('binding'), info.get('destination')))
            except Exception as e:
                outs.append(None)
    finally:
        mdstore.requests = old
    reg = {'authn': [(B['post'], 'https://sp1.example.org/acs')], 'logout': [(B['redirect'], 'https://sp1.example.org/slo')]}[case['typ']]
    for o in outs:
        if o is None:
            continue
        if case['answer'] != 'right':
            raise Violation('destination-for-unknown-requester', 'the MDQ server answered the query for %s with %s, yet destination %r was derived' % (X, case['answer'], o))
        if o not in reg:
            raise Violation('unregistered-destination', 'derived %r is not registered for %s (%r)' % (o, X, reg))
        if case['typ'] == 'authn' and url is not None and o[1] != url:
            raise Violation('supplied-url-not-honoured-nor-refused', 'consumer URL %r supplied, answered at %r' % (url, o[1]))
    return 'mdq|%s|%s' % (case['answer'], 'answered' if any(outs) else 'refused'), True


def parts(tier):
    quick = tier != 'thorough'
    return [Part('mdq-backend', run_mdq, cases=mdq_cases, exhaustive=True),
            Part('requests', run, strategy=case_strategy, examples=3000 if quick else 100000)]
