"""C03 - signatures are trusted only under the issuer's keys from metadata.

Generated federations (2-4 IdPs with signing / encryption-only / use-less key descriptors, shared keys on purpose) x every
pairing of claimed Issuer x actual signing key x embedded KeyInfo material x signature level, under both values of
only_use_keys_in_metadata.  Oracle: reference model of the metadata the SP was given."""
from harness.runner import Part, Violation
from harness import build, spside, clock, world

PROPERTY = 'C03'
LEVEL = 'exploration'
RULE = ('Hypothesis federations: 2-4 IdPs x 0-3 key descriptors (use signing/encryption/none, pool keys 1..6, keys may be shared between entities), the descriptors sitting in an IDPSSODescriptor, a stand-alone AttributeAuthorityDescriptor or split over both; per federation a set of '
        'messages: claimed Issuer in {each IdP, unknown entity} x actual signing key in the pool x KeyInfo in {none, signer cert, other entity\'s cert, signer RSAKeyValue, '
        'other RSAKeyValue} x level {response, assertion} x only_use_keys_in_metadata {True, False}. Non-trivial = claimed issuer does not own the key for signing, or embedded '
        'material present; distinct = distinct (federation, message).')
ASSUMPTIONS = ['xmlsec1 stand-in incl. its KeyInfo-first key search (DESIGN 2.1: KeyValue preferred over the command-line key unless --enabled-key-data excludes it)',
               'accepting a message the model allows is not required (only zero accepted cases overall is a harness problem)']

IDPS = ['https://idp-a.example.org', 'https://idp-b.example.org', 'https://idp-c.example.org', 'https://idp-d.example.org']
UNKNOWN = 'https://idp-unknown.example.org'
POOL = [1, 4, 5, 6, 7]


def case_strategy():
    from hypothesis import strategies as st
    kd = st.tuples(st.sampled_from(['signing', 'signing', 'encryption', None]), st.sampled_from(POOL + ['keyname', 'damaged', 'expired'])).map(list)
    fed = st.one_of(st.lists(st.lists(kd, max_size=3), min_size=2, max_size=4), st.lists(st.lists(kd, max_size=3), min_size=2, max_size=4), st.just([]))   # [] = no metadata source at all
    msg = st.fixed_dictionaries({'issuer': st.integers(0, 4), 'key': st.sampled_from(POOL), 'keyinfo': st.sampled_from(['none', 'signer-cert', 'other-cert', 'signer-rsa', 'other-rsa', 'signer-cert']),
                                 'other': st.sampled_from(POOL), 'level': st.sampled_from(['response', 'assertion', 'both']), 'alg': st.sampled_from(['sha1', 'sha256']),
                                 'r_issuer': st.sampled_from([None, None, None, 0, 1, 2, 3, 4]),
                                 # another consumer of the same long-lived store asks for the issuer's certificates of this use just before the message arrives
                                 'pre_lookup': st.sampled_from([None, None, 'encryption', 'signing']),
                                 # after signing, an algorithm identifier is replaced by one the tool does not implement: the run ends without a verdict, the signature verifies under no key
                                 'no_verdict': st.sampled_from([None, None, None, 'SignatureMethod', 'DigestMethod', 'CanonicalizationMethod'])})
    # where an entity's key descriptors live: an IdP role descriptor, a stand-alone attribute authority, or split (IdP descriptor without keys + AA descriptor with them)
    roles = st.lists(st.sampled_from(['idp', 'idp', 'aa', 'split']), min_size=4, max_size=4)
    # certificate look-ups by another consumer of the store (an IdP encrypting for the peer, a metadata export ...) before the first message arrives: (entity, use)
    warm = st.lists(st.tuples(st.integers(0, 3), st.sampled_from(['encryption', 'encryption', 'signing'])).map(list), max_size=4)
    return st.fixed_dictionaries({'fed': fed, 'roles': roles, 'only_md': st.booleans(), 'messages': st.lists(msg, min_size=3, max_size=8), 'warm': warm})


def run(case):
    now = spside.NOW
    fed = case['fed']
    roles = case.get('roles') or ['idp'] * 4
    ents = []
    for i, kds in enumerate(fed):
        keys = [(u, k) for u, k in kds]
        aa = {'attribute_service': [(world.SOAP, IDPS[i] + '/aa')]}
        if roles[i] == 'aa':
            ents.append({'entityid': IDPS[i], 'aa': dict(aa, keys=keys)})
        elif roles[i] == 'split':
            ents.append({'entityid': IDPS[i], 'idp': {'keys': []}, 'aa': dict(aa, keys=keys)})
        else:
            ents.append({'entityid': IDPS[i], 'idp': {'keys': keys}})
    md = build.entities_xml(ents) if ents else ''
    opts = {'only_use_keys_in_metadata': case['only_md'], 'want_response_signed': False, 'want_assertions_signed': False, 'want_assertions_or_response_signed': True}
    sp = spside.sp_for(opts, md=md)
    clock.set_now(now)
    labels = set()
    nt = False
    for idx, use in case.get('warm', []):
        if idx < len(fed):
            try:
                sp.metadata.certs(IDPS[idx], 'any', use)
            except Exception:
                pass
    for m in case['messages']:
        if m['other'] == m['key'] and m['keyinfo'].startswith('other-'):
            m = dict(m, keyinfo='signer-' + m['keyinfo'][6:])
        issuer = IDPS[m['issuer']] if m['issuer'] < len(fed) else UNKNOWN
        trusted = []
        if m['issuer'] < len(fed):
            trusted = [k for u, k in fed[m['issuer']] if u in ('signing', None) and k not in ('keyname', 'damaged')]
        ki = {'none': None, 'signer-cert': ('x509', world.cert_body(m['key'])), 'other-cert': ('x509', world.cert_body(m['other'])),
              'signer-rsa': build.rsa_keyvalue(m['key']), 'other-rsa': build.rsa_keyvalue(m['other'])}[m['keyinfo']]
        r, a = build.standard(now, idp_entity=issuer)
        # the Response may name another entity as its Issuer than the Assertion inside it: each signature is judged under the Issuer of the element that carries it
        ri = m.get('r_issuer')
        r_issuer = issuer if ri is None else (IDPS[ri] if ri < len(fed) else UNKNOWN)
        r_trusted = trusted if ri is None else ([k for u, k in fed[ri] if u in ('signing', None) and k not in ('keyname', 'damaged')] if ri < len(fed) else [])
        r['issuer'] = r_issuer
        try:
            doc = build.render(r, [a], sign_response=m['key'] if m['level'] in ('response', 'both') else None,
                               sign_assertions=m['key'] if m['level'] in ('assertion', 'both') else None, alg=m['alg'], keyinfo=ki)
        except RuntimeError:
            continue
        if m.get('pre_lookup'):
            try:
                sp.metadata.certs(issuer, 'any', m['pre_lookup'])
            except Exception:
                pass
        if m.get('no_verdict'):
            import re
            doc = re.sub(r'(<ds:%s Algorithm=")[^"]*"' % m['no_verdict'], r'\1urn:verif:not-implemented"', doc)
        v = spside.deliver(sp, doc)
        def ok_under(tr):
            if m.get('no_verdict'):
                return False
            return m['key'] in tr or (not case['only_md'] and not tr and m['keyinfo'] == 'signer-cert')
        allowed = (ok_under(trusted) if m['level'] in ('assertion', 'both') else True) and (ok_under(r_trusted) if m['level'] in ('response', 'both') else True)
        cls = []
        if m['key'] not in trusted:
            cls.append('foreign-key')
            nt = True
        if m['keyinfo'] != 'none':
            cls.append(m['keyinfo'])
            nt = True
        if m.get('no_verdict'):
            cls.append('no-verdict')
            nt = True
        if issuer == UNKNOWN:
            cls.append('unknown-issuer')
        if r_issuer != issuer:
            cls.append('response-issuer-differs')
            nt = True
        if m['issuer'] < len(fed) and roles[m['issuer']] != 'idp':
            cls.append('keys-in-' + roles[m['issuer']] + '-descriptor')
        if v[0] == 'accept':
            if not allowed:
                owner = [IDPS[i] for i, kds in enumerate(fed) if any(k == m['key'] for u, k in kds)]
                raise Violation('untrusted-signature-accepted:' + ('rsa-keyvalue' if m['keyinfo'].endswith('rsa') else ('embedded-cert' if m['keyinfo'] != 'none' else 'metadata-key')),
                                'accepted %s-signed message whose Assertion claims issuer %s (Response Issuer: %s, its signing keys %r), signed with pool key %d (KeyInfo: %s, only_use_keys_in_metadata=%r); the assertion issuer\'s metadata signing keys are %r; '
                                'that key belongs to %r / uses %r' % (m['level'], issuer, r_issuer, r_trusted, m['key'], m['keyinfo'], case['only_md'], trusted, owner,
                                                                     [(u, k) for kds in fed for u, k in kds if k == m['key']]),
                                detail={'keyinfo': m['keyinfo']})
            labels.add('accept|' + ('md-key' if m['key'] in trusted else 'embedded') + ('|response-issuer-differs' if r_issuer != issuer else ''))
        else:
            labels.add('reject|' + '+'.join(cls or ['own-key-rejected']))
    return '+'.join(sorted(labels)), nt


SPS = ['https://sp-a.example.org', 'https://sp-b.example.org', 'https://sp-c.example.org']
_idps = {}


def request_strategy():
    from hypothesis import strategies as st
    kd = st.tuples(st.sampled_from(['signing', 'signing', 'encryption', None]), st.sampled_from(POOL + ['keyname', 'damaged', 'expired'])).map(list)
    fed = st.lists(st.lists(kd, max_size=3), min_size=2, max_size=3)
    msg = st.fixed_dictionaries({'issuer': st.integers(0, 3), 'key': st.sampled_from(POOL), 'keyinfo': st.sampled_from(['none', 'signer-cert', 'other-cert', 'signer-rsa']),
                                 'other': st.sampled_from(POOL), 'typ': st.sampled_from(['authn', 'logout']), 'alg': st.sampled_from(['sha1', 'sha256'])})
    return st.fixed_dictionaries({'fed': fed, 'only_md': st.booleans(), 'want_signed': st.booleans(), 'messages': st.lists(msg, min_size=3, max_size=8),
                                  # the rarely used receiver option want_authn_requests_only_with_valid_cert
                                  'only_valid_cert': st.sampled_from([False, False, True])})


def run_requests(case):
    """the same rule on the IdP side: a signed AuthnRequest / LogoutRequest is handed over only if it verifies under a metadata signing key of its Issuer"""
    now = spside.NOW
    fed = case['fed']
    world.install_inprocess_tool()
    key = repr((fed, case['only_md'], case['want_signed'], case.get('only_valid_cert')))
    if key not in _idps:
        ents = [{'entityid': SPS[i], 'sp': {'keys': [(u, k) for u, k in kds], 'acs': [(world.POST, SPS[i] + '/acs', 0, True)], 'slo': [(world.REDIRECT, SPS[i] + '/slo')]}} for i, kds in enumerate(fed)]
        _idps.clear()
        _idps[key] = world.make_idp(world.idp_conf(dict(world.DEFAULT_IDP, want_authn_requests_signed=case['want_signed'], only_use_keys_in_metadata=case['only_md'], want_authn_requests_only_with_valid_cert=bool(case.get('only_valid_cert')),
                                                        sso=[('https://idp.verif.example/sso/post', world.POST)], slo=[('https://idp.verif.example/slo/post', world.POST)]),
                                                   [build.entities_xml(ents)]))
        clock.install()
    idp = _idps[key]
    clock.set_now(now)
    labels = set()
    nt = False
    for m in case['messages']:
        issuer = SPS[m['issuer']] if m['issuer'] < len(fed) else 'https://sp-unknown.example.org'
        trusted = [k for u, k in fed[m['issuer']] if u in ('signing', None) and k not in ('keyname', 'damaged')] if m['issuer'] < len(fed) else []
        kind = m['keyinfo']
        if m['other'] == m['key'] and kind == 'other-cert':
            kind = 'signer-cert'
        ki = {'none': None, 'signer-cert': ('x509', world.cert_body(m['key'])), 'other-cert': ('x509', world.cert_body(m['other'])), 'signer-rsa': build.rsa_keyvalue(m['key'])}[kind]
        q = {'id': 'id-q-1', 'issue_instant': build.ts(now), 'issuer': issuer, 'signature': build.sig_template('id-q-1', m['alg'], ki)}
        if m['typ'] == 'authn':
            xml = build.authn_request_xml(dict(q, destination='https://idp.verif.example/sso/post', acs_url=issuer + '/acs', protocol_binding=world.POST))
            node = build.SAMLP + ':AuthnRequest'
        else:
            xml = build.logout_request_xml(dict(q, destination='https://idp.verif.example/slo/post'))
            node = build.SAMLP + ':LogoutRequest'
        xml = build.sign(xml, node, 'id-q-1', m['key'])
        try:
            req = idp.parse_authn_request(build.b64(xml), world.POST) if m['typ'] == 'authn' else idp.parse_logout_request(build.b64(xml), world.POST)
            handed = req is not None and req.message is not None
        except Exception:
            handed = False
        allowed = m['key'] in trusted or (not case['only_md'] and not trusted and kind == 'signer-cert')
        if m['key'] not in trusted or kind != 'none':
            nt = True
        if handed and not allowed:
            raise Violation('untrusted-request-signature-accepted:' + kind, 'signed %s request claiming issuer %s, signed with pool key %d (KeyInfo %s, only_use_keys_in_metadata=%r) was handed to the '
                            'application; the issuer\'s metadata signing keys are %r' % (m['typ'], issuer, m['key'], kind, case['only_md'], trusted))
        labels.add(('handed|' if handed else 'refused|') + ('md-key' if m['key'] in trusted else 'foreign-key'))
    return '+'.join(sorted(labels)), nt


def rollover_cases():
    out = []
    for first in (1, 4):
        for second in (1, 4, 5):
            for warm in (True, False):
                for how in ('load', 'imp-dict', 'imp-list'):
                    for level in ('response', 'assertion'):
                        if first != second:
                            out.append({'first': first, 'second': second, 'warm': warm, 'how': how, 'level': level})
    return out


def run_rollover(case):
    """one long-lived SP whose metadata source for the IdP is re-loaded with another signing certificate between two responses:
    after the reload only the key the metadata holds now authenticates the IdP"""
    import os
    world.install_inprocess_tool()
    clock.install()
    now = spside.NOW
    clock.set_now(now)
    path = os.path.join(os.getcwd(), 'idp-md-%d.xml' % os.getpid())

    def write(k):
        with open(path, 'w') as f:
            f.write(build.entity_xml({'entityid': spside.IDP, 'idp': {'keys': [('signing', k)]}}))
    write(case['first'])
    conf = world.sp_conf(dict(world.DEFAULT_SP, want_response_signed=case['level'] == 'response', want_assertions_signed=case['level'] == 'assertion'), [])
    conf['metadata'] = {'local': [path]}
    sp = world.make_sp(conf)

    def send(k, n):
        r, a = build.standard(now, rid='id-resp-%d' % n, aid='id-assertion-%d' % n)
        doc = build.render(r, [a], sign_response=k if case['level'] == 'response' else None, sign_assertions=k if case['level'] == 'assertion' else None)
        return spside.deliver(sp, doc)[0] == 'accept'
    if case['warm'] and not send(case['first'], 1):
        raise Violation('valid-message-refused', 'response signed with the key the metadata holds (pool %d) refused' % case['first'])
    write(case['second'])
    if case['how'] == 'load':
        sp.metadata.load('local', path)
    elif case['how'] == 'imp-dict':
        sp.metadata.imp({'local': [path]})
    else:
        sp.metadata.imp([{'class': 'saml2_tophat.mdstore.MetaDataFile', 'metadata': [(path,)]}])
    if send(case['first'], 2):
        raise Violation('retired-key-accepted', 'after the IdP\'s metadata was re-loaded (%s) with signing key %d, a %s signed with the retired key %d was accepted%s'
                        % (case['how'], case['second'], case['level'], case['first'], ' (a message under the old key had been verified before)' if case['warm'] else ''))
    if not send(case['second'], 3):
        raise Violation('valid-message-refused', 'after the reload a %s signed with the current key %d is refused' % (case['level'], case['second']))
    return 'rollover|%s|%s' % (case['how'], 'warm' if case['warm'] else 'cold'), True


def known_match(part, case, v):
    return None


def parts(tier):
    quick = tier != 'thorough'
    return [Part('key-rollover', run_rollover, cases=rollover_cases, exhaustive=True),
            Part('federations', run, strategy=case_strategy, examples=600 if quick else 15000),
            Part('requests', run_requests, strategy=request_strategy, examples=300 if quick else 8000)]
