"""C14 - binding encoders and decoders are exact inverses and inject nothing.

Generated (message, RelayState, destination, typ) tuples are packaged with the Redirect, POST, SOAP/PAOS
and artifact encoders and read back with independent stdlib readers (urllib.parse, html.parser,
ElementTree, zlib/base64) and with the library's own decoders.
"""
import base64, re, zlib
from harness.runner import Part, Violation

PROPERTY = 'C14'
LEVEL = 'exploration'
RULE = ('Generated messages (library-built requests/responses with generated text, arbitrary Unicode strings, generated '
        'well-formed XML with newlines/tabs/entities and an optional XML declaration in either quote style) x RelayState over '
        'all Unicode scalar values biased to HTML/URL delimiters x destinations with/without query x typ; '
        'non-trivial = message or RelayState contains a delimiter of its carrier (" \' < > & = ; # % + newline, non-ASCII); '
        'distinct = distinct generated tuple.')
ASSUMPTIONS = ['stdlib urllib.parse / html.parser / ElementTree / zlib are the independent readers',
               'HTML attribute values are compared modulo CR/CRLF->LF (input-stream normalisation of HTML parsers)',
               'destinations are generated from URL-safe characters (the statement speaks of message and RelayState only)']

SOAPENV = 'http://schemas.xmlsoap.org/soap/envelope/'
DELIMS = set(u'"\'<>&=;#%+\n\r\t ?/')


def _special(s):
    return bool(s) and (bool(set(s) & DELIMS) or any(ord(c) > 127 for c in s))


def _entity():
    from saml2_tophat.entity import Entity

    class E(Entity):
        def __init__(self):
            self.sec = None
            self.artifact = {}

            class C(object):
                entityid = 'urn:verif:entity'
            self.config = C()
    return E()


# ---------------------------------------------------------------- generators
def relay_states():
    from hypothesis import strategies as st
    hot = st.sampled_from(list(u'"\'<>&=;#%+ \n\r\t/?\\') + [u'&Signature=x', u'&SAMLRequest=zzz', u'"/><input name="evil" value="1', u'&amp;',
                                                             u'&#x41;', u'%41%26', u'</form>', u'é', u'\U0001F600', u'&RelayState=dup', u'&SigAlg=none'])
    return st.one_of(st.just(''), st.text(max_size=30), st.lists(st.one_of(hot, st.text(max_size=4)), max_size=8).map(u''.join),
                     st.text(min_size=200, max_size=600))


def destinations():
    from hypothesis import strategies as st
    base = st.sampled_from(['https://sp.example.org/acs', 'https://idp.example.org:8443/sso/redirect', 'http://localhost/a/b'])
    # '?sls' / '?acs&x=1': value-less parameters, as PHP toolkits register their endpoints
    q = st.one_of(st.just(''), st.sampled_from(['?x=1', '?x=1&y=2', '?a=b%20c', '?SAMLRequest=old', '?k=', '?sls', '?acs&x=1', '?']))
    return st.tuples(base, q).map(lambda t: t[0] + t[1])


def xml_texts():
    from hypothesis import strategies as st
    return st.text(alphabet=st.one_of(st.sampled_from(list(u'<>&"\' \n\t]ab')), st.characters(codec='utf-8', exclude_categories=('Cc', 'Cs'), exclude_characters=u'\ufffe\uffff')), max_size=20)     # U+FFFE / U+FFFF are not XML characters


def _esc(s, attr=False):
    s = s.replace('&', '&amp;').replace('<', '&lt;').replace('>', '&gt;')
    if attr:
        s = s.replace('"', '&quot;').replace('\n', '&#10;').replace('\t', '&#9;')
    return s


def xml_docs():
    """well-formed XML strings; (decl, body) pairs."""
    from hypothesis import strategies as st
    name = st.sampled_from(['a', 'b', 'Req', 'x-y', 'n1'])
    pref = st.sampled_from(['', 'p', 'ns0', 'ns1', 'saml'])
    uri = st.sampled_from(['urn:x', 'urn:y', 'http://example.org/', 'urn:oasis:names:tc:SAML:2.0:protocol'])

    def elem(children):
        return st.builds(lambda p, n, u, at, tx, ch, tl: _mk(p, n, u, at, tx, ch, tl), pref, name, uri,
                         st.dictionaries(st.sampled_from(['k', 'ID', 'v']), xml_texts(), max_size=2), xml_texts(),
                         st.lists(children, max_size=3), st.sampled_from(['', '\n', '\n  ', ' t ']))
    leaf = st.builds(lambda p, n, u, at, tx: _mk(p, n, u, at, tx, [], ''), pref, name, uri,
                     st.dictionaries(st.sampled_from(['k', 'ID']), xml_texts(), max_size=2), xml_texts())
    tree = st.recursive(leaf, elem, max_leaves=6)
    decl = st.sampled_from(['', '<?xml version="1.0" encoding="UTF-8"?>\n', "<?xml version='1.0' encoding='UTF-8'?>\n",
                            '<?xml version="1.0" encoding="UTF-8"?>', '<?xml version="1.0"?>\n', "<?xml version='1.0' encoding='utf-8'?>\n\n"])
    return st.tuples(decl, tree).map(lambda t: t[0] + t[1][0])


def _mk(p, n, u, at, tx, ch, tail):
    tag = (p + ':' + n) if p else n
    decl = (' xmlns:%s="%s"' % (p, u)) if p else (' xmlns="%s"' % u)
    s = '<%s%s%s>' % (tag, decl, ''.join(' %s="%s"' % (k, _esc(v, True)) for k, v in sorted(at.items())))
    s += _esc(tx)
    for c in ch:
        s += c[0] + c[1]
    s += '</%s>' % tag
    return (s, _esc(tail) if not tail.strip() else _esc(tail))


def lib_messages():
    """messages built by the library's own classes with generated text content"""
    from hypothesis import strategies as st
    t = xml_texts()
    return st.tuples(st.integers(0, 13), t, t, st.booleans(), st.booleans())


def _lib_message(kind, t1, t2, signed, empties=False):
    from saml2_tophat import samlp, saml, xmldsig as ds
    sig = None
    if signed:
        sig = ds.Signature(signed_info=ds.SignedInfo(canonicalization_method=ds.CanonicalizationMethod(algorithm=ds.ALG_EXC_C14N),
                                                     signature_method=ds.SignatureMethod(algorithm=ds.SIG_RSA_SHA256),
                                                     reference=[ds.Reference(uri='#id1', digest_method=ds.DigestMethod(algorithm=ds.DIGEST_SHA256),
                                                                             digest_value=ds.DigestValue(text='AAAA'))]),
                           signature_value=ds.SignatureValue(text='QUJDRA==\nRUZHSA=='))
    iss = saml.Issuer(text='urn:idp:' + t2[:5])
    if kind == 0:
        return samlp.AuthnRequest(id='id1', version='2.0', issue_instant='2024-01-01T00:00:00Z', issuer=iss, signature=sig,
                                  destination='https://idp.example.org/sso', provider_name=t1,
                                  conditions=saml.Conditions(one_time_use=[saml.OneTimeUse()]) if empties else None,
                                  extensions=samlp.Extensions() if empties else None)
    if kind == 1:
        return samlp.LogoutRequest(id='id1', version='2.0', issue_instant='2024-01-01T00:00:00Z', issuer=iss, signature=sig,
                                   name_id=saml.NameID(text=t1), reason=t2)
    if kind == 2:
        a = saml.Assertion(id='a1', version='2.0', issue_instant='2024-01-01T00:00:00Z', issuer=iss,
                           subject=saml.Subject(name_id=saml.NameID(text=t1), subject_confirmation=[saml.SubjectConfirmation(
                               method=saml.SCM_BEARER, subject_confirmation_data=saml.SubjectConfirmationData())] if empties else []),
                           conditions=saml.Conditions(one_time_use=[saml.OneTimeUse()]) if empties else None,
                           attribute_statement=[saml.AttributeStatement(attribute=[saml.Attribute(name='n', attribute_value=[saml.AttributeValue(text=t2)])])])
        return samlp.Response(id='id1', version='2.0', issue_instant='2024-01-01T00:00:00Z', issuer=iss, signature=sig,
                              status=samlp.Status(status_code=samlp.StatusCode(value=samlp.STATUS_SUCCESS), status_message=samlp.StatusMessage(text=t2)),
                              assertion=[a])
    if kind == 3:
        return samlp.AttributeQuery(id='id1', version='2.0', issue_instant='2024-01-01T00:00:00Z', issuer=iss, signature=sig,
                                    subject=saml.Subject(name_id=saml.NameID(text=t1)))
    if kind == 4:
        return samlp.LogoutResponse(id='id1', version='2.0', issue_instant='2024-01-01T00:00:00Z', issuer=iss, signature=sig, in_response_to=t1,
                                    status=samlp.Status(status_code=samlp.StatusCode(value=samlp.STATUS_SUCCESS)))
    # the less travelled message types of the SOAP-bound profiles
    common = dict(id='id1', version='2.0', issue_instant='2024-01-01T00:00:00Z', issuer=iss, signature=sig)
    ok = samlp.Status(status_code=samlp.StatusCode(value=samlp.STATUS_SUCCESS), status_message=samlp.StatusMessage(text=t2))
    if kind == 5:
        if empties:   # elements whose presence is the information
            return samlp.ManageNameIDRequest(name_id=saml.NameID(text=t1), terminate=samlp.Terminate(), **common)
        return samlp.ManageNameIDRequest(name_id=saml.NameID(text=t1), new_id=samlp.NewID(text=t2), **common)
    if kind == 6:
        return samlp.NameIDMappingRequest(name_id=saml.NameID(text=t1), name_id_policy=samlp.NameIDPolicy(format=saml.NAMEID_FORMAT_PERSISTENT, sp_name_qualifier=t2), **common)
    if kind == 7:
        return samlp.AssertionIDRequest(assertion_id_ref=[saml.AssertionIDRef(text='_' + re.sub(r'[^A-Za-z0-9]', 'x', t1)), saml.AssertionIDRef(text='_b')], **common)
    if kind == 8:
        return samlp.AuthnQuery(subject=saml.Subject(name_id=saml.NameID(text=t1)), session_index=t2, **common)
    if kind == 9:
        return samlp.ArtifactResolve(artifact=samlp.Artifact(text='AAQAA' + re.sub(r'[^A-Za-z0-9]', 'x', t1)), **common)
    if kind == 10:
        return samlp.ArtifactResponse(in_response_to=t1, status=ok, **common)
    if kind == 11:
        return samlp.ManageNameIDResponse(in_response_to=t1, status=ok, **common)
    if kind == 12:
        return samlp.NameIDMappingResponse(in_response_to=t1, status=ok, name_id=saml.NameID(text=t2), **common)
    return samlp.AuthzDecisionQuery(subject=saml.Subject(name_id=saml.NameID(text=t1)), resource='urn:resource:' + re.sub(r'[^A-Za-z0-9]', 'x', t2),
                                    action=[saml.Action(namespace=saml.NAMESPACE, text='Read')], **common)


# message type names the receiving entity uses to pick the SOAP decoder (the msgtype attributes of saml2_tophat.request / .response)
MSGTYPES = {0: ['authn_request'], 1: ['logout_request'], 2: ['response', 'attribute_response', 'authn_query_response', 'assertion_id_response', 'authz_decision_response'], 3: ['attribute_query'],
            4: ['logout_response', 'response'], 5: ['manage_name_id_request'], 6: ['name_id_mapping_request'], 7: ['assertion_id_request'], 8: ['authn_query'],
            9: ['artifact_resolve'], 10: ['artifact_response'], 11: ['manage_name_id_response'], 12: ['name_id_mapping_response'], 13: ['authz_decision_query']}


def message_strategy(xml_only=False):
    from hypothesis import strategies as st
    opts = [st.tuples(st.just('lib'), lib_messages()), st.tuples(st.just('xml'), xml_docs())]
    if not xml_only:
        opts.append(st.tuples(st.just('text'), st.text(max_size=60)))
        opts.append(st.tuples(st.just('text'), st.text(min_size=300, max_size=3000)))
    # large messages around buffer-size boundaries (a Response with a few thousand attribute values is some hundred kB): [size in characters, filler]
    sizes = st.builds(lambda e, d: (1 << e) + d, st.integers(12, 18), st.integers(-2, 2))
    opts.append(st.tuples(st.just('big'), st.tuples(st.one_of(sizes, st.integers(4000, 300000)), st.sampled_from(['xml'] if xml_only else ['a', 'hex', u'\xe9<&>', 'xml'])).map(list)))
    return st.one_of(*opts).map(list)


def _message(m):
    kind, v = m
    if kind == 'lib':
        return str(_lib_message(*v))
    if kind == 'big':
        n, filler = v
        if filler == 'hex':
            import hashlib
            out, i = [], 0
            while 64 * len(out) < n:
                out.append(hashlib.sha256(b'%d' % i).hexdigest())
                i += 1
            return ''.join(out)[:n]
        if filler == 'xml':
            if n < 8:
                return '<r/>'
            out, size, i = ['<r>'], 7, 0
            while True:
                item = '<v i="%d">value %d</v>' % (i, i)
                if size + len(item) > n:
                    break
                out.append(item)
                size += len(item)
                i += 1
            out.append('x' * (n - size))
            out.append('</r>')
            return ''.join(out)
        return (filler * (n // len(filler) + 1))[:n]
    return v


def case_strategy(xml_only=False):
    from hypothesis import strategies as st
    return st.fixed_dictionaries({'msg': message_strategy(xml_only), 'rs': relay_states(), 'dest': destinations(),
                                  'typ': st.sampled_from(['SAMLRequest', 'SAMLResponse']), 'via': st.sampled_from(['pack', 'entity', 'obj']),
                                  # the payload handed over as octets (the UTF-8 form of the message, or arbitrary octets: 'raw' is their base64 form) instead of text
                                  'as_bytes': st.sampled_from([False, False, False, True]),
                                  'raw': st.one_of(st.none(), st.none(), st.binary(min_size=1, max_size=120).map(lambda b: base64.b64encode(b).decode('ascii')))})


def _payload(case, msg):
    """(argument for the packaging function, octets the receiver must get back)"""
    if case['via'] == 'pack' and case.get('as_bytes'):
        octets = base64.b64decode(case['raw']) if case.get('raw') else msg.encode('utf-8')
        return octets, octets
    return msg, msg.encode('utf-8')


# ---------------------------------------------------------------- oracles
def run_redirect(case):
    from urllib.parse import urlsplit, parse_qsl
    from saml2_tophat import pack, BINDING_HTTP_REDIRECT
    from saml2_tophat.entity import Entity
    msg = _message(case['msg'])
    rs, dest, typ = case['rs'], case['dest'], case['typ']
    if case['via'] == 'entity' or (case['via'] == 'obj' and case['msg'][0] != 'lib'):
        info = _entity().apply_binding(BINDING_HTTP_REDIRECT, msg, dest, rs, response=(typ == 'SAMLResponse'))
    elif case['via'] == 'obj':
        info = pack.http_redirect_message(_lib_message(*case['msg'][1]), dest, rs, typ)
    else:
        arg, want = _payload(case, msg)
        info = pack.http_redirect_message(arg, dest, rs, typ)
    if not (case['via'] == 'pack' and case.get('as_bytes')):
        want = msg.encode('utf-8')
    hdrs = [v for k, v in info['headers'] if k == 'Location']
    if len(hdrs) != 1:
        raise Violation('redirect-headers', 'expected one Location header, got %r' % (info['headers'],))
    loc = hdrs[0]
    if not loc.startswith(dest):
        raise Violation('redirect-destination', 'Location %r does not extend destination %r' % (loc[:80], dest))
    parts = urlsplit(loc)
    if parts.fragment:
        raise Violation('redirect-fragment', 'Location has a fragment: %r' % parts.fragment[:60])
    # the destination (with whatever query it has) is kept verbatim (checked above); what follows it are the appended parameters
    added = loc[len(dest):]
    glue = '&' if '?' in dest else '?'
    if not added.startswith(glue):
        raise Violation('redirect-query-malformed', 'after the destination %r the URL continues with %r' % (dest, added[:40]))
    try:
        got = parse_qsl(added[1:], keep_blank_values=True, strict_parsing=True)
    except ValueError as e:
        raise Violation('redirect-query-malformed', 'appended query does not parse strictly: %r (%s)' % (added[:120], e))
    pre = [1] if urlsplit(dest).query else []
    exp_keys = [typ] + (['RelayState'] if rs else [])
    if [k for k, v in got] != exp_keys:
        raise Violation('redirect-params', 'parameters %r, expected %r (RelayState %r)' % ([k for k, v in got], exp_keys, rs[:60]))
    d = dict(got)
    if rs and d['RelayState'] != rs:
        raise Violation('redirect-relaystate', 'RelayState %r came back as %r' % (rs[:80], d['RelayState'][:80]))
    try:
        raw = zlib.decompress(base64.b64decode(d[typ], validate=True), -15)
    except Exception as e:
        raise Violation('redirect-payload', 'payload does not inflate: %r' % (e,))
    if raw != want:
        raise Violation('redirect-message', 'message changed: %r -> %r' % (want[:80], raw[:80]))
    back = Entity.unravel(d[typ], BINDING_HTTP_REDIRECT)
    if back != want:
        raise Violation('redirect-unravel', 'unravel gives %r for %r' % (back[:80], want[:80]))
    sp = _special(rs) or (case['msg'][0] != 'lib' and _special(msg))
    return ('redirect|' + case['msg'][0] + '|' + ('special' if sp else 'plain') + ('|destquery' if pre else '')), sp or bool(pre)


def _norm_nl(s):
    return s.replace('\r\n', '\n').replace('\r', '\n')


def run_post(case):
    from html.parser import HTMLParser
    from saml2_tophat import pack, BINDING_HTTP_POST
    from saml2_tophat.entity import Entity

    class P(HTMLParser):
        def __init__(self):
            HTMLParser.__init__(self, convert_charrefs=True)
            self.inputs = []
            self.forms = []
            self.other = []

        def handle_starttag(self, tag, attrs):
            if tag == 'input':
                self.inputs.append(attrs)
            elif tag == 'form':
                self.forms.append(attrs)
            elif tag not in ('html', 'head', 'meta', 'body', 'noscript', 'p', 'strong'):
                self.other.append(tag)
        handle_startendtag = handle_starttag
    msg = _message(case['msg'])
    rs, dest, typ = case['rs'], case['dest'], case['typ']
    if case['via'] == 'entity' or (case['via'] == 'obj' and case['msg'][0] != 'lib'):
        info = _entity().apply_binding(BINDING_HTTP_POST, msg, dest, rs, response=(typ == 'SAMLResponse'))
    elif case['via'] == 'obj':
        info = pack.http_form_post_message(_lib_message(*case['msg'][1]), dest, rs, typ)
    else:
        arg, want = _payload(case, msg)
        info = pack.http_form_post_message(arg, dest, rs, typ)
    if not (case['via'] == 'pack' and case.get('as_bytes')):
        want = msg.encode('utf-8')
    p = P()
    p.feed(info['data'])
    p.close()
    if len(p.forms) != 1:
        raise Violation('post-forms', 'HTML has %d forms' % len(p.forms))
    if p.other:
        raise Violation('post-extra-elements', 'unexpected elements %r (RelayState %r)' % (p.other[:5], rs[:60]))
    hidden = [a for a in p.inputs if dict(a).get('type') == 'hidden']
    others = [a for a in p.inputs if dict(a).get('type') != 'hidden']
    if len(others) != 1 or dict(others[0]).get('type') != 'submit':
        raise Violation('post-extra-inputs', 'non-hidden inputs: %r' % (others[:3],))
    for a in hidden:
        if sorted(k for k, v in a) != ['name', 'type', 'value']:
            raise Violation('post-input-attrs', 'hidden input with attributes %r (RelayState %r)' % (a, rs[:60]))
    names = [dict(a)['name'] for a in hidden]
    exp = [typ] + (['RelayState'] if rs else [])
    if names != exp:
        raise Violation('post-fields', 'hidden fields %r expected %r' % (names, exp))
    vals = dict((dict(a)['name'], dict(a)['value']) for a in hidden)
    try:
        raw = base64.b64decode(vals[typ], validate=True)
    except Exception as e:
        raise Violation('post-payload', 'message field is not base64: %r' % (e,))
    if raw != want:
        raise Violation('post-message', 'message changed: %r -> %r' % (want[:80], raw[:80]))
    if rs and _norm_nl(vals['RelayState']) != _norm_nl(rs):
        raise Violation('post-relaystate', 'RelayState %r read back as %r' % (rs[:80], vals['RelayState'][:80]))
    if dict(p.forms[0]).get('action') != dest or dict(p.forms[0]).get('method') != 'post':
        raise Violation('post-action', 'form attributes %r' % (p.forms[0],))
    back = Entity.unravel(vals[typ], BINDING_HTTP_POST)
    if back != want:
        raise Violation('post-unravel', 'unravel gives %r' % (back[:80],))
    sp = _special(rs) or (case['msg'][0] != 'lib' and _special(msg))
    return ('post|' + case['msg'][0] + '|' + ('special' if sp else 'plain')), sp


def _shape(e):
    return (e.tag, tuple(sorted(e.attrib.items())), e.text or '', tuple((_shape(c), c.tail or '') for c in e))


def run_soap(case):
    from xml.etree import ElementTree as ET
    from saml2_tophat import pack, soap, BINDING_SOAP, BINDING_PAOS
    msg = _message(case['msg'])
    want = ET.fromstring(msg.encode('utf-8'))
    via = case['via']
    headers = None
    if case.get('paos'):
        from saml2_tophat.profile import paos, ecp
        case = dict(case, rs=''.join(c for c in case['rs'] if c in '\t\n' or ord(c) >= 32 and ord(c) not in (0xFFFE, 0xFFFF)).replace('\r', ''))
        headers = [paos.Request(must_understand='1', actor='http://schemas.xmlsoap.org/soap/actor/next', response_consumer_url='https://sp.example.org/paos?' + case['rs'][:10],
                                service='urn:oasis:names:tc:SAML:2.0:profiles:SSO:ecp'),
                   ecp.RelayState(must_understand='1', actor='http://schemas.xmlsoap.org/soap/actor/next', text=case['rs'][:40] or 'rs')]
    if via == 'entity':
        info = _entity().apply_binding(BINDING_PAOS if headers else BINDING_SOAP, msg, case['dest'], soap_headers=headers)
        env = info['data']
    elif via == 'obj' and case['msg'][0] == 'lib':
        env = pack.make_soap_enveloped_saml_thingy(_lib_message(*case['msg'][1]), headers)
    elif via == 'soapmod' and case['msg'][0] == 'lib':
        # the envelope builder of saml2_tophat.soap, as used for the ECP/PAOS request
        env = soap.make_soap_enveloped_saml_thingy(_lib_message(*case['msg'][1]), headers)
    else:
        env = pack.make_soap_enveloped_saml_thingy(msg, headers)
    envb = env if isinstance(env, bytes) else env.encode('utf-8')
    try:
        root = ET.fromstring(envb)
    except ET.ParseError as e:
        raise Violation('soap-malformed', 'envelope is not well-formed (%s): %r' % (e, envb[:200]))
    if root.tag != '{%s}Envelope' % SOAPENV:
        raise Violation('soap-root', 'root is %r' % root.tag)
    bodies = [c for c in root if c.tag == '{%s}Body' % SOAPENV]
    hdrs = [c for c in root if c.tag == '{%s}Header' % SOAPENV]
    if len(bodies) != 1 or len(root) != len(bodies) + len(hdrs) or len(hdrs) != (1 if headers else 0):
        raise Violation('soap-structure', 'envelope children %r' % [c.tag for c in root])
    body = bodies[0]
    if len(body) != 1 or (body.text or '').strip():
        raise Violation('soap-body', 'Body has %d children / text %r for message %r' % (len(body), (body.text or '')[:40], msg[:80]))
    if _shape(body[0]) != _shape(want):
        raise Violation('soap-element', 'body element differs from message: %r vs %r' % (ET.tostring(body[0])[:200], msg[:200]))
    if headers and [h.tag for h in hdrs[0]] != ['{urn:liberty:paos:2003-08}Request', '{urn:oasis:names:tc:SAML:2.0:profiles:SSO:ecp}RelayState']:
        raise Violation('paos-headers', 'header children %r' % [h.tag for h in hdrs[0]])
    # the library's own decoders
    if not headers:
        out = soap.parse_soap_enveloped_saml_thingy(envb, [want.tag])
        if _shape(ET.fromstring(out)) != _shape(want):
            raise Violation('soap-decode', 'parse_soap_enveloped_saml_thingy returns %r' % (out[:200],))
    o = soap.open_soap_envelope(envb)
    if _shape(ET.fromstring(o['body'])) != _shape(want):
        raise Violation('soap-open', 'open_soap_envelope body %r' % (o['body'][:200],))
    if headers and len(o['header']) != 2:
        raise Violation('paos-open-headers', 'open_soap_envelope gives %d headers' % len(o['header']))
    if case['msg'][0] == 'lib':
        from saml2_tophat import samlp
        from saml2_tophat.profile import paos, ecp
        obj = _lib_message(*case['msg'][1])
        b, h = pack.parse_soap_enveloped_saml(envb, type(obj), [paos.Request, ecp.RelayState] if headers else None)
        if b is None or _shape(ET.fromstring(b.to_string())) != _shape(want):
            raise Violation('soap-parse-class', 'parse_soap_enveloped_saml body differs')
        if headers and (len(h) != 2 or h['{urn:oasis:names:tc:SAML:2.0:profiles:SSO:ecp}RelayState'].text != (case['rs'][:40] or 'rs')):
            raise Violation('paos-parse-headers', 'header parts %r' % (list(h),))
        if not headers:
            # the decoder the receiving entity selects by message type
            from saml2_tophat.entity import Entity
            for mt in MSGTYPES[case['msg'][1][0]]:
                try:
                    got = Entity.unravel(envb, BINDING_SOAP, mt)
                except Exception as e:
                    raise Violation('soap-unravel', 'Entity.unravel(.., SOAP, %r) fails for a packed %s: %s: %s' % (mt, type(obj).__name__, type(e).__name__, e))
                if _shape(ET.fromstring(got)) != _shape(want):
                    raise Violation('soap-unravel', 'Entity.unravel(.., SOAP, %r) gives %r' % (mt, got[:200]))
    sp = '\n' in msg.split('?>', 1)[-1].strip() or _special(case['rs'] if headers else '')
    lab = 'soap|' + case['msg'][0] + ('|paos' if headers else '') + ('|decl' if msg.startswith('<?xml') else '') + ('|newline' if '\n' in msg.split('?>', 1)[-1].strip() else '')
    return lab, bool(sp or msg.startswith('<?xml'))


def run_artifact(case):
    from urllib.parse import urlsplit, parse_qsl
    from hashlib import sha1
    from saml2_tophat import BINDING_HTTP_ARTIFACT
    e = _entity()
    msg = _message(case['msg'])
    idx = case['idx']
    art = e.use_artifact(msg, idx)
    raw = base64.b64decode(art, validate=True)
    if len(raw) != 44 or raw[:2] != b'\x00\x04' or raw[4:24] != sha1(b'urn:verif:entity').digest():
        raise Violation('artifact-format', 'artifact %r is not type 0x0004 + index + SHA1(entity id) + 20 byte handle' % (raw,))
    if int(raw[2:4]) != idx:
        raise Violation('artifact-index', 'endpoint index %r for %d' % (raw[2:4], idx))
    dest = case['dest']
    info = e.apply_binding(BINDING_HTTP_ARTIFACT, art, dest, case['rs'], response=case['typ'] == 'SAMLResponse')
    if not info['url'].startswith(dest):
        raise Violation('artifact-destination', 'URL %r does not extend destination %r' % (info['url'][:80], dest))
    added = info['url'][len(dest):]
    if not added.startswith('&' if '?' in dest else '?'):
        raise Violation('artifact-url', 'after the destination %r the URL continues with %r' % (dest, added[:40]))
    try:
        got = parse_qsl(added[1:], keep_blank_values=True, strict_parsing=True)
    except ValueError as ex:
        raise Violation('artifact-url', 'appended query of %r does not parse strictly: %s' % (info['url'][:120], ex))
    exp = [('SAMLart', art)] + ([('RelayState', case['rs'])] if case['rs'] else [])
    if got != exp:
        raise Violation('artifact-url', 'query %r expected %r' % (got[:3], exp[:3]))
    if e.artifact[dict(got)['SAMLart']] != msg:
        raise Violation('artifact-message', 'stored message differs')
    if case['msg'][0] == 'lib':
        # the message as the resolver hands it back: embedded in an ArtifactResponse (create_artifact_response) and taken out again
        # (parse_artifact_resolve_response)
        from xml.etree import ElementTree as ET
        from saml2_tophat import samlp, saml, element_to_extension_element, extension_elements_to_elements
        obj = _lib_message(*case['msg'][1])
        a3 = e.use_artifact(obj, idx)
        ar = samlp.ArtifactResponse(id='ar1', version='2.0', issue_instant='2024-01-01T00:00:00Z', in_response_to='r1',
                                    status=samlp.Status(status_code=samlp.StatusCode(value=samlp.STATUS_SUCCESS)),
                                    extension_elements=[element_to_extension_element(e.artifact[a3])])
        back = samlp.artifact_response_from_string(ar.to_string())
        elems = extension_elements_to_elements(back.extension_elements, [samlp, saml])
        if len(elems) != 1 or _shape(ET.fromstring(elems[0].to_string())) != _shape(ET.fromstring(msg.encode('utf-8'))):
            raise Violation('artifact-response-content', 'message taken out of the ArtifactResponse differs: %r vs %r' % (
                elems and elems[0].to_string()[:300], msg[:300]))
    art2 = e.use_artifact(msg, idx)
    if art2 == art:
        raise Violation('artifact-not-unique', 'two artifacts for the same message are equal')
    sp = _special(case['rs'])
    return 'artifact|' + ('special' if sp else 'plain'), sp


def store_cases():
    return [{'n': n, 'order': o} for n in (3, 1030, 2100) for o in ('issue-all-then-resolve', 'resolve-previous-after-each-issue')]


def run_store(case):
    """one long-lived entity hands out many artifacts: every artifact still stands for the message it was issued for, whenever it is resolved"""
    e = _entity()
    issued = []
    for i in range(case['n']):
        msg = '<m xmlns="urn:verif:m" n="%d"/>' % i
        issued.append((e.use_artifact(msg, i % 10), msg))
        if case['order'] == 'resolve-previous-after-each-issue' and i:
            art, want = issued[i - 1]
            if e.artifact.get(art) != want:
                raise Violation('artifact-message', 'after %d artifacts were issued, artifact #%d (issued just before the last one) stands for %r instead of %r' % (i + 1, i - 1, e.artifact.get(art), want))
    if len(set(a for a, m in issued)) != len(issued):
        raise Violation('artifact-not-unique', 'duplicate artifacts among %d issued ones' % len(issued))
    for k, (art, want) in enumerate(issued):
        if e.artifact.get(art) != want:
            raise Violation('artifact-message', '%d artifacts issued: artifact #%d stands for %r instead of %r' % (len(issued), k, e.artifact.get(art), want))
    return 'store|%d|%s' % (case['n'], case['order']), case['n'] > 3



def parts(tier):
    from hypothesis import strategies as st
    quick = tier != 'thorough'
    k = 1 if quick else 25

    def soap_cases():
        return st.fixed_dictionaries({'msg': message_strategy(xml_only=True), 'rs': relay_states(), 'dest': destinations(),
                                      'typ': st.just('SAMLRequest'), 'via': st.sampled_from(['pack', 'entity', 'obj', 'soapmod']), 'paos': st.booleans()})

    def art_cases():
        return st.fixed_dictionaries({'msg': message_strategy(), 'rs': relay_states(), 'dest': destinations(),
                                      'typ': st.sampled_from(['SAMLRequest', 'SAMLResponse']), 'idx': st.integers(0, 9)})
    return [
        Part('redirect', run_redirect, strategy=case_strategy, examples=8000 * k, mandatory=['redirect|xml|special', 'redirect|text|special|destquery']),
        Part('post', run_post, strategy=case_strategy, examples=8000 * k, mandatory=['post|text|special']),
        Part('soap', run_soap, strategy=soap_cases, examples=6000 * k),
        Part('artifact', run_artifact, strategy=art_cases, examples=2000 * k),
        Part('artifact-store', run_store, cases=store_cases, exhaustive=True),
    ]


def known_match(part, case, v):
    return None
