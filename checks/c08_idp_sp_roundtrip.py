"""C08 - what the IdP asserts is what the SP reads, for any content.

An IdP and an SP configured from each other's *generated* metadata; Hypothesis generates identities over the XML Char
range, NameID / authn context / lifetime / session expiry, every sign_response x sign_assertion x encrypt_assertion x
algorithm setting that satisfies the SP's options, and the delivery binding.  The SP must accept and read back exactly
what the IdP was asked to assert; values must never change the structure of the message."""
import base64, re
from harness.runner import Part, Violation
from harness import build, world, clock, spside

PROPERTY = 'C08'
LEVEL = 'exploration'
RULE = ('Hypothesis: identity = 1-6 attributes named from the shipped maps (case variants) with 0-4 values over XML Char (biased to < > & " \' ]]> character references spelled as '
        'text, look-alike SAML markup, leading/trailing/inner whitespace, astral / combining characters, long strings) x NameID (6 formats, qualifiers) x authn context class x session '
        'expiry x sign_response x sign_assertion x encrypt_assertion x 5 signature x 5 digest algorithms x SP option setting (only combinations that satisfy it) x binding '
        '{POST, Redirect, SOAP}. Non-trivial = some value contains a markup-significant, non-ASCII or whitespace-edge character, or signing / encryption is on; distinct = distinct case.')
ASSUMPTIONS = ['xmlsec1 stand-in; frozen clock; values compared modulo XML line-end normalisation (CR, CRLF -> LF) and the documented whitespace trimming',
               'delivery decoded with stdlib readers (html.parser, urllib.parse) before it is handed to the SP']

NAMES = ['givenName', 'sn', 'mail', 'displayName', 'eduPersonAffiliation', 'eduPersonPrincipalName', 'title', 'uid', 'cn', 'o', 'telephoneNumber', 'postalAddress',
         'eduPersonTargetedID']       # carried as a NameID element nested inside each AttributeValue (attribute_converter special case)
VARIANT = {'givenName': 'GivenName', 'mail': 'MAIL', 'sn': 'SN', 'displayName': 'displayname'}
FORMATS = ['urn:oasis:names:tc:SAML:2.0:nameid-format:persistent', 'urn:oasis:names:tc:SAML:2.0:nameid-format:transient',
           'urn:oasis:names:tc:SAML:1.1:nameid-format:emailAddress', 'urn:oasis:names:tc:SAML:1.1:nameid-format:unspecified',
           'urn:oasis:names:tc:SAML:1.1:nameid-format:X509SubjectName', 'urn:oasis:names:tc:SAML:2.0:nameid-format:kerberos']
CLASSES = ['urn:oasis:names:tc:SAML:2.0:ac:classes:Password', 'urn:oasis:names:tc:SAML:2.0:ac:classes:InternetProtocolPassword',
           'urn:oasis:names:tc:SAML:2.0:ac:classes:PasswordProtectedTransport', 'urn:oasis:names:tc:SAML:2.0:ac:classes:X509']
NOW = spside.NOW
_pairs = {}


def xml_text():
    from hypothesis import strategies as st
    hot = st.sampled_from(list(u'<>&"\' \n\t]') + [u']]>', u'&amp;', u'&#x41;', u'&lt;', u'<saml:Attribute Name="evil">', u'</saml:AttributeValue><saml:AttributeValue>injected',
                                                   u'<!--', u'-->', u'<?pi?>', u'\xe9', u'€', u'\U0001F600', u'é', u'  lead', u'trail  ', u'a  b', u'\r\n', u'\r',
                                                   u'\\', u'\\1', u'\\g<0>', u'\\n', u'C:\\Users\\x', u'%s', u'%(a)s', u'{0}', u'$1', u'${x}'])
    chars = st.characters(codec='utf-8', exclude_categories=('Cs',), exclude_characters=u'￾￿').filter(lambda c: ord(c) >= 32 or c in u'\t\n\r')
    return st.one_of(st.text(alphabet=chars, max_size=20), st.lists(st.one_of(hot, st.text(alphabet=chars, max_size=4)), min_size=1, max_size=6).map(u''.join),
                     st.text(alphabet=st.sampled_from(list(u'ab <&\xe9')), min_size=200, max_size=1500),
                     # one value that alone pushes the message over 64 KiB / 128 KiB (buffer-size boundaries of the transport encodings)
                     st.tuples(st.sampled_from([66000, 70000, 131073]), st.sampled_from([u'a', u'ab <&', u'\xe9x'])).map(lambda t: (t[1] * (t[0] // len(t[1]) + 1))[:t[0]]))


def case_strategy():
    from hypothesis import strategies as st
    name = st.sampled_from(NAMES).flatmap(lambda n: st.sampled_from([n, n, VARIANT.get(n, n)]))
    ident = st.dictionaries(name, st.lists(xml_text(), min_size=0, max_size=4), min_size=1, max_size=6).filter(lambda d: len(set(k.lower() for k in d)) == len(d))
    nid = st.fixed_dictionaries({'format': st.sampled_from(FORMATS), 'text': xml_text().filter(lambda s: s.strip() != ''), 'spq': st.booleans(), 'nq': st.booleans()})
    return st.fixed_dictionaries({'identity': ident, 'name_id': nid, 'class_ref': st.sampled_from(CLASSES), 'session': st.one_of(st.none(), st.integers(600, 90000)),
                                  'sign_response': st.booleans(), 'sign_assertion': st.booleans(), 'encrypt': st.booleans(), 'sign_alg': st.integers(0, 4), 'digest_alg': st.integers(0, 4),
                                  'opts': st.integers(0, 7), 'binding': st.sampled_from(['post', 'post', 'redirect', 'soap']), 'irt': st.sampled_from(['id-req-1', '_a-b.c', 'id-0000000001']),
                                  'relay': st.sampled_from(['', '/came/from?x=1&y=2']),
                                  # the SP's documented clock-skew allowance, and how the IdP gets the subject identifier: handed over ready-made, or built by its
                                  # identifier store from a NameIDPolicy (long-lived IdP, few users, several formats)
                                  'slack': st.sampled_from([None, None, 0, 180]), 'acs_index': st.sampled_from([False, False, True]), 'tz': st.sampled_from([None, None, None, 'PST8', 'JST-9']), 'policy': st.sampled_from([False, False, True, 'L1', 'L2', 'L3', 'L4']),
                                  # PEFIM: the attributes travel in an encrypted advice assertion (alone or inside an assertion that is encrypted as well)
                                  'pefim': st.sampled_from([False, False, False, True]),
                                  'nid_policy': st.one_of(st.none(), st.none(), st.tuples(st.sampled_from(['user-a', 'user-b']), st.integers(0, 2)).map(list))})


POLICY = {'default': {'lifetime': {'minutes': 5}, 'nameid_format': 'urn:oasis:names:tc:SAML:2.0:nameid-format:persistent'},
          spside.SP: {'attribute_restrictions': None}}     # the SP's own section says nothing about lifetime: the operator's default applies


# assertion lifetimes an operator may configure (timedelta keywords) and what they amount to in seconds
LIFETIMES = {True: ({'minutes': 5}, 300), 'L1': ({'days': 1, 'hours': 2}, 93600), 'L2': ({'hours': 36}, 129600), 'L3': ({'weeks': 2, 'minutes': 5}, 1209900), 'L4': ({'days': 7}, 604800)}


def pair(opts, slack=None, acs_index=False, policy=False):
    key = (opts, slack, acs_index, policy)
    if key not in _pairs:
        wrs, was, wors = bool(opts & 1), bool(opts & 2), bool(opts & 4)
        extra = {} if slack is None else {'accepted_time_diff': slack}
        sp, idp, spmd, idpmd = world.pair({'want_response_signed': wrs, 'want_assertions_signed': was, 'want_assertions_or_response_signed': wors, **extra,
                                           # endpoints in the documented (url, binding) or (url, binding, index) form
                                           'acs': [(spside.ACS_POST, world.POST, 0), (spside.ACS_REDIRECT, world.REDIRECT, 1), ('https://sp.verif.example/acs/soap', world.SOAP, 2)] if acs_index else
                                                  [(spside.ACS_POST, world.POST), (spside.ACS_REDIRECT, world.REDIRECT), ('https://sp.verif.example/acs/soap', world.SOAP)]},
                                          {'policy': dict(POLICY, default=dict(POLICY['default'], lifetime=LIFETIMES[policy][0]))} if policy else None)
        clock.install()
        _pairs[key] = (sp, idp)
    return _pairs[key]


def norm(v):
    return v.replace('\r\n', '\n').replace('\r', '\n').strip()


def skeleton(xml):
    from xml.etree import ElementTree as ET
    root = ET.fromstring(xml.encode('utf-8'))

    def sk(e):
        return (e.tag, tuple(sorted(k for k in e.attrib)), tuple(sk(c) for c in e if not c.tag.endswith('}Signature')))
    return sk(root)


def deliver_via(idp, sp, binding, xml, relay, outstanding):
    from html.parser import HTMLParser
    from urllib.parse import urlsplit, parse_qsl
    b = {'post': world.POST, 'redirect': world.REDIRECT, 'soap': world.SOAP}[binding]
    dest = {'post': spside.ACS_POST, 'redirect': spside.ACS_REDIRECT, 'soap': 'https://sp.verif.example/acs/soap'}[binding]
    info = idp.apply_binding(b, xml, dest, relay, response=True)
    if binding == 'post':
        class P(HTMLParser):
            def __init__(self):
                HTMLParser.__init__(self, convert_charrefs=True)
                self.f = {}

            def handle_starttag(self, tag, attrs):
                d = dict(attrs)
                if tag == 'input' and d.get('type') == 'hidden':
                    self.f[d.get('name')] = d.get('value')
            handle_startendtag = handle_starttag
        p = P()
        p.feed(info['data'])
        payload = p.f['SAMLResponse']
        rs = p.f.get('RelayState', '')
    elif binding == 'redirect':
        q = dict(parse_qsl(urlsplit(dict(info['headers'])['Location']).query, keep_blank_values=True))
        payload = q['SAMLResponse']
        rs = q.get('RelayState', '')
    else:
        payload = info['data']
        rs = relay
    if rs != relay:
        raise Violation('relay-state-changed', 'RelayState %r delivered as %r over %s' % (relay, rs, binding))
    return sp.parse_authn_request_response(payload, b, outstanding)


def run(case):
    if case.get('tz'):
        with clock.tz(case['tz']):
            return _run(dict(case, tz=None))
    return _run(case)


def _run(case):
    from saml2_tophat import saml, samlp
    from saml2_tophat.xmldsig import SIG_ALLOWED_ALG, DIGEST_ALLOWED_ALG
    wrs, was, wors = bool(case['opts'] & 1), bool(case['opts'] & 2), bool(case['opts'] & 4)
    sr, sa, enc = case['sign_response'], case['sign_assertion'], case['encrypt']
    # only combinations that satisfy the SP's requirements
    if wrs and not sr:
        sr = True
    if was and not sa:
        sa = True
    if wors and not (sr or sa):
        sr = True
    binding = case['binding']
    sp, idp = pair(case['opts'], case.get('slack'), bool(case.get('acs_index')), case.get('policy') or False)
    clock.set_now(NOW)
    identity = dict((k, list(v)) for k, v in case['identity'].items())
    n = case['name_id']
    name_id = saml.NameID(format=n['format'], text=n['text'], sp_name_qualifier=spside.SP if n['spq'] else None, name_qualifier=spside.IDP if n['nq'] else None)
    sig_algs = sorted(b for a, b in SIG_ALLOWED_ALG if 'rsa' in b)
    dig_algs = sorted(b for a, b in DIGEST_ALLOWED_ALG if 'ripemd' not in b and 'md5' not in b)
    dest = {'post': spside.ACS_POST, 'redirect': spside.ACS_REDIRECT, 'soap': 'https://sp.verif.example/acs/soap'}[binding]
    kw = dict(in_response_to=case['irt'], destination=dest, sp_entity_id=spside.SP, name_id=name_id,
              authn={'class_ref': case['class_ref'], 'authn_auth': 'https://idp.verif.example/login'},
              sign_response=sr, sign_assertion=sa, encrypt_assertion=enc, sign_alg=sig_algs[case['sign_alg'] % len(sig_algs)], digest_alg=dig_algs[case['digest_alg'] % len(dig_algs)])
    pol = case.get('nid_policy')
    POLICY_FORMATS = [saml.NAMEID_FORMAT_PERSISTENT, saml.NAMEID_FORMAT_TRANSIENT, saml.NAMEID_FORMAT_PERSISTENT]     # (emailAddress needs a configured domain)
    if pol:
        del kw['name_id']
        kw['userid'] = pol[0]
        kw['name_id_policy'] = samlp.NameIDPolicy(format=POLICY_FORMATS[pol[1]], allow_create='true', sp_name_qualifier=spside.SP)
    if case['session'] is not None:
        kw['session_not_on_or_after'] = build.ts(NOW + case['session'])
    if case.get('pefim'):
        kw['pefim'] = True
    try:
        resp = idp.create_authn_response(dict(identity), **kw)
    except Exception as e:
        raise Violation('idp-cannot-build', 'create_authn_response raised %s: %s' % (type(e).__name__, str(e)[:200]))
    xml = str(resp)
    special = any(re.search(u'[<>&"\'\\s]|[^\\x00-\\x7f]', v) for vs in identity.values() for v in vs)
    label = '%s|%s%s%s' % (binding, 'R' if sr else '', 'A' if sa else '', 'E' if enc else '') + ('|special' if special else '') + ('|pefim' if case.get('pefim') else '')
    try:
        got = deliver_via(idp, sp, binding, xml, case['relay'], {case['irt']: '/came/from'})
    except Violation:
        raise
    except Exception as e:
        raise Violation('sp-rejects:' + binding + ('+signed' if (sr or sa) else '') + ('+enc' if enc else ''),
                        'SP rejected the IdP\'s response (%s, sign_response=%r sign_assertion=%r encrypt=%r, SP options wrs/was/wors=%r): %s: %s'
                        % (binding, sr, sa, enc, (wrs, was, wors), type(e).__name__, str(e)[:200]))
    if got is None:
        raise Violation('sp-rejects:' + binding, 'SP returned None for the IdP\'s response (%s, R=%r A=%r E=%r)' % (binding, sr, sa, enc))
    # ---- what the application reads
    exp_ava = {}
    for k, vs in identity.items():
        canon = [x for x in NAMES if x.lower() == k.lower()][0]
        exp_ava.setdefault(canon, []).extend(norm(v) for v in vs)
    def _txt(v):
        # eduPersonTargetedID values come back as the nested NameID in dictionary form
        if isinstance(v, dict):
            v = v.get('text') or ''
        return v.replace('\r\n', '\n').replace('\r', '\n')
    got_ava = dict((k, [_txt(v) for v in vs]) for k, vs in (got.ava or {}).items())   # trimming is the SP's job
    if got_ava != exp_ava:
        diff = dict((k, (exp_ava.get(k), got_ava.get(k))) for k in set(exp_ava) | set(got_ava) if exp_ava.get(k) != got_ava.get(k))
        raise Violation('attributes-differ', 'asserted vs read (expected, got): %r' % (dict(list(diff.items())[:3]),))
    g = got.name_id
    if pol:
        # the identifier is the store's; what was asked for is its format and namespace
        if g is None or not g.text or g.format != POLICY_FORMATS[pol[1]] or (g.sp_name_qualifier or spside.SP) != spside.SP:
            raise Violation('name-id-differs', 'NameIDPolicy asked for format %r in the namespace of %r for %r, the SP read %r'
                            % (POLICY_FORMATS[pol[1]], spside.SP, pol[0], None if g is None else (g.text, g.format, g.sp_name_qualifier)))
    elif g is None or norm(g.text or '') != norm(n['text']) or g.format != n['format'] or (g.sp_name_qualifier or None) != (spside.SP if n['spq'] else None) \
            or (g.name_qualifier or None) != (spside.IDP if n['nq'] else None):
        raise Violation('name-id-differs', 'asserted NameID %r read as %r' % ((n['text'], n['format']), None if g is None else (g.text, g.format, g.sp_name_qualifier, g.name_qualifier)))
    si = got.session_info()
    if got.in_response_to != case['irt'] or si['issuer'] != spside.IDP:
        raise Violation('envelope-differs', 'in_response_to %r issuer %r came_from %r' % (got.in_response_to, si['issuer'], got.came_from))
    ai = got.authn_info()
    if not ai or ai[0][0] != case['class_ref']:
        raise Violation('authn-context-differs', 'asserted %r read %r' % (case['class_ref'], ai))
    if case['session'] is None and case.get('policy') and si['not_on_or_after'] != NOW + LIFETIMES[case['policy']][1]:
        raise Violation('session-expiry-differs', 'the release policy gives assertions a lifetime of %r (%d s), the SP reads an expiry of now%+d s'
                        % (LIFETIMES[case['policy']][0], LIFETIMES[case['policy']][1], si['not_on_or_after'] - NOW))
    if case['session'] is not None and si['not_on_or_after'] != NOW + case['session']:
        raise Violation('session-expiry-differs', 'SessionNotOnOrAfter %d read as %r' % (NOW + case['session'], si['not_on_or_after']))
    # ---- values never change the structure
    if not enc:
        benign = dict((k, ['v%d' % i for i in range(len(v))]) for k, v in identity.items())
        kw2 = dict(kw) if pol else dict(kw, name_id=saml.NameID(format=n['format'], text='subject', sp_name_qualifier=name_id.sp_name_qualifier, name_qualifier=name_id.name_qualifier))
        ref = str(idp.create_authn_response(benign, **kw2))
        if skeleton(xml) != skeleton(ref):
            raise Violation('structure-changed-by-values', 'element skeleton of the response differs from the same response with benign values')
    return label, bool(special or sr or sa or enc)


def known_match(part, case, v):
    wrs, wors = bool(case['opts'] & 1), bool(case['opts'] & 4)
    sr = case['sign_response'] or wrs or (wors and not case['sign_assertion'] and not (case['opts'] & 2))
    if case['binding'] == 'soap' and case['encrypt'] and sr and v.bucket.startswith('sp-rejects:soap'):
        return 'C08-soap-reserialisation-breaks-response-signature'
    return None


def parts(tier):
    quick = tier != 'thorough'
    return [Part('roundtrips', run, strategy=case_strategy, examples=1200 if quick else 60000)]
