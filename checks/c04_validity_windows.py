"""C04 - assertions are honoured only inside their validity windows.

A grid of clock positions around every bound (Conditions NotBefore/NotOnOrAfter, bearer SubjectConfirmationData
NotOnOrAfter/NotBefore, SessionNotOnOrAfter, response IssueInstant), for every allowance and presence subset, is
enumerated under a frozen clock; Hypothesis adds random multi-bound combinations.  Oracle: must-reject / must-accept
sets from the statement, and the session expiry handed to the application."""
import calendar, re, time
from harness.runner import Part, Violation, Inconclusive
from harness import build, spside, clock, world

PROPERTY = 'C04'
LEVEL = 'exploration'
RULE = ('grid: allowance s in {0,1,60,300,86400} x judged bound in {Conditions.NotBefore, Conditions.NotOnOrAfter, SCD.NotOnOrAfter, SCD.NotBefore, '
        'SessionNotOnOrAfter, IssueInstant(+/-), NotBefore>NotOnOrAfter on Conditions / SCD} x placement of the bound at the reject edge and the accept edge '
        '-3,-2,-1,0,+1,+2,+3 s and far values x presence subsets of the other bounds x 5 timestamp spellings (Z, no zone, fractional with/without Z); two AuthnStatements with the judged SessionNotOnOrAfter on either; two bearer confirmations with the judged NotOnOrAfter on either; the attribute-query answer entry point (parse_attribute_query_response, SOAP) for the Conditions and confirmation bounds; '
        '7 zone-offset spellings (+02:00 .. +14:00, -05:00, -11:00, +00:00) of bounds really passed / not reached by 5 s .. 15 h (reject side only); '
        'rows under process time zones UTC+5 / UTC-5 / UTC+13; IssueInstant rows delivered over SOAP; generated: every bound present/absent with its own offset. Instants within 1 s of an edge are run but not judged. '
        'Non-trivial = a bound within s+3 of an edge or an ordering violation; distinct = distinct row.')
ASSUMPTIONS = ['frozen clock (DESIGN 2.4); xmlsec1 stand-in for the response signature',
               'must-reject: now - s > NotOnOrAfter + 1, NotBefore > now + s + 1, NotBefore > NotOnOrAfter, |IssueInstant - now| > 1 day + s + 1',
               'must-accept only for profile shapes (bearer SCD with NotOnOrAfter, no SCD NotBefore) with every bound satisfied by more than s + 1']

DAY = 86400
ALLOWANCES = [0, 1, 60, 300, 86400]
BOUNDS = ['cnb', 'cnooa', 'snooa', 'snb', 'sess']
SPELL = ['Z', '', '.5Z', '.123456', '.0Z']
# xs:dateTime spellings with a numeric zone offset: the same instant written in local time.  Only the reject side is judged for them (a receiver may refuse the
# spelling, it may not read another instant out of it)
ZONED = [('+02:00', 7200), ('-05:00', -18000), ('.250+01:00', 3600), ('+00:00', 0), ('+05:30', 19800), ('-11:00', -39600), ('+14:00', 50400)]


def stamp(t, spell):
    if spell >= 100:
        suffix, off = ZONED[(spell - 100) % len(ZONED)]
        return time.strftime('%Y-%m-%dT%H:%M:%S', time.gmtime(int(t) + off)) + suffix
    sp = SPELL[spell % len(SPELL)]
    base = time.strftime('%Y-%m-%dT%H:%M:%S', time.gmtime(int(t)))
    return base + sp


def parse_stamp(s):
    m = re.match(r'^(\d{4})-(\d\d)-(\d\d)T(\d\d):(\d\d):(\d\d)', s)
    return calendar.timegm(tuple(int(x) for x in m.groups()) + (0, 0, 0))


def judge(case):
    """-> ('reject' | 'accept' | 'unjudged', reason) from the statement"""
    now = spside.NOW
    s = case['s']
    b = dict(case['bounds'])          # kind -> epoch or None
    if not case.get('stmts'):
        b['sess2'] = None       # there is no second AuthnStatement to carry it
    if not case.get('scd2'):
        b['snooa2'] = None      # nor a second bearer confirmation
    if case.get('entry') == 'attrq':
        b['sess'] = b['sess2'] = None       # an attribute response carries no AuthnStatement
    must_reject = []
    comfortable = True
    for k in ('cnooa', 'snooa', 'snooa2', 'sess', 'sess2'):
        if b.get(k) is not None:
            if now - s > b[k] + 1:
                must_reject.append(k + ' passed')
            if not (b[k] - now > s + 1):
                comfortable = False
    for k in ('cnb', 'snb'):
        if b.get(k) is not None:
            if b[k] > now + s + 1:
                must_reject.append(k + ' in the future')
            if not (now - b[k] > s + 1):
                comfortable = False
    if b.get('cnb') is not None and b.get('cnooa') is not None and b['cnb'] > b['cnooa']:
        must_reject.append('Conditions NotBefore later than NotOnOrAfter')
    if b.get('snb') is not None and b.get('snooa') is not None and b['snb'] > b['snooa']:
        must_reject.append('SCD NotBefore later than NotOnOrAfter')
    ii = case['ii']
    if abs(ii - now) > DAY + s + 1:
        must_reject.append('IssueInstant outside one day + allowance')
    if not abs(ii - now) < DAY - 1:
        comfortable = False
    if must_reject:
        return 'reject', must_reject
    profile = (b.get('snooa') is not None and b.get('snb') is None and not case.get('stmts') and case.get('spell', 0) < 100 and not case.get('scd2')
               and case.get('entry', 'authn') in ('authn', 'soap'))
    if comfortable and profile:
        return 'accept', []
    return 'unjudged', []


def run(case):
    if case.get('tz'):
        with clock.tz(case['tz']):
            return _run(dict(case, tz=None))
    return _run(case)


def _run(case):
    now = spside.NOW
    s = case['s']
    attrq = case.get('entry') == 'attrq'
    soap = case.get('entry') == 'soap'
    opts = {'accepted_time_diff': s} if s else {}
    if attrq or soap or case.get('entry') == 'authnq':
        opts.update({'want_response_signed': False, 'want_assertions_signed': False, 'want_assertions_or_response_signed': False})
    sp = spside.sp_for(opts)
    clock.set_now(now)
    b = dict(case['bounds'])
    if not case.get('scd2'):
        b['snooa2'] = None
    if attrq:
        b['sess'] = b['sess2'] = None
    if not case.get('stmts'):
        b['sess2'] = None
    spell = case.get('spell', 0)
    r, a = build.standard(now)
    r['issue_instant'] = stamp(case['ii'], spell)
    a['issue_instant'] = stamp(now, 0)
    cond = {'audiences': [[spside.SP]]}
    if b.get('cnb') is not None:
        cond['not_before'] = stamp(b['cnb'], spell)
    if b.get('cnooa') is not None:
        cond['not_on_or_after'] = stamp(b['cnooa'], spell)
    a['conditions'] = cond
    data = {'in_response_to': 'id-req-1', 'recipient': spside.ACS_POST}
    if b.get('snooa') is not None:
        data['not_on_or_after'] = stamp(b['snooa'], spell)
    if b.get('snb') is not None:
        data['not_before'] = stamp(b['snb'], spell)
    a['subject']['confirmations'] = [{'method': build.BEARER, 'data': data}]
    # a second bearer confirmation with a window of its own: 'scd2' = 1 after the first, 2 before it
    if case.get('scd2'):
        d2 = {'in_response_to': 'id-req-1', 'recipient': spside.ACS_POST}
        if b.get('snooa2') is not None:
            d2['not_on_or_after'] = stamp(b['snooa2'], spell)
        c2 = {'method': build.BEARER, 'data': d2}
        a['subject']['confirmations'] = a['subject']['confirmations'] + [c2] if case['scd2'] == 1 else [c2] + a['subject']['confirmations']
    st = {'authn_instant': stamp(now - 5, 0), 'session_index': 's1', 'class_ref': build.PASSWORD}
    if b.get('sess') is not None:
        st['session_not_on_or_after'] = stamp(b['sess'], spell)
    a['authn'] = [st]
    # further AuthnStatements (step-up style): 'stmts' = 1 a second statement after the first, 2 before it; its SessionNotOnOrAfter is bounds['sess2'] (absent when None)
    if case.get('stmts'):
        st2 = {'authn_instant': stamp(now - 3, 0), 'session_index': 's2', 'class_ref': build.PASSWORD}
        if b.get('sess2') is not None:
            st2['session_not_on_or_after'] = stamp(b['sess2'], spell)
        a['authn'] = [st, st2] if case['stmts'] == 1 else [st2, st]
    if attrq:
        # the SP's other response entry point: the answer to an attribute query (SOAP, unsigned; no AuthnStatement, no Destination)
        a['authn'] = []
        r['destination'] = None
        v = spside.deliver_attr(sp, build.render(r, [a]))
    elif case.get('entry') == 'authnq':
        # a third response entry point: the answer to an AuthnQuery (SOAP, unsigned; AuthnStatements stay)
        r['destination'] = None
        try:
            resp = sp.parse_authn_query_response(build.soap_envelope(build.render(r, [a])), world.SOAP)
            v = ('accept', resp) if resp is not None else ('reject', 'None', '')
        except Exception as e:
            v = ('reject', type(e).__name__, str(e)[:200])
    elif soap:
        # the same authentication response delivered over the synchronous SOAP binding (unsigned: the SOAP decoder re-serialises the body)
        r['destination'] = None
        try:
            resp = sp.parse_authn_request_response(build.soap_envelope(build.render(r, [a])), world.SOAP, {'id-req-1': '/'})
            v = ('accept', resp) if resp is not None else ('reject', 'None', '')
        except Exception as e:
            v = ('reject', type(e).__name__, str(e)[:200])
    else:
        doc = build.render(r, [a], sign_response=1)
        v = spside.deliver(sp, doc)
    want, why = judge(case)
    label = want + '|' + case.get('judged', 'multi')
    if want == 'reject' and v[0] == 'accept':
        raise Violation('accepted-outside-window', 'allowance %d: accepted although %s (bounds relative to now: %r, IssueInstant %+d)'
                        % (s, '; '.join(why), dict((k, x - now) for k, x in b.items() if x is not None), case['ii'] - now))
    if want == 'accept':
        if v[0] != 'accept':
            raise Violation('rejected-inside-window', 'allowance %d: every bound satisfied with more than the allowance to spare, rejected: %s %s (bounds relative to now: %r, IssueInstant %+d, spelling %r)'
                            % (s, v[1], v[2], dict((k, x - now) for k, x in b.items() if x is not None), case['ii'] - now, SPELL[spell % len(SPELL)]))
    if v[0] == 'accept' and not attrq and case.get('entry') != 'authnq':
        got = v[1].session_info()['not_on_or_after']
        if case.get('stmts') or attrq:
            exp = None      # which statement's bound is the session expiry is not stated for several statements
        elif b.get('sess') is not None:
            exp = b['sess']
        elif b.get('cnooa') is not None:
            exp = b['cnooa']
        else:
            exp = None
        if exp is not None and got != exp:
            raise Violation('session-expiry-wrong', 'session expiry handed to the application is %r, expected %r (%s)' % (got, exp, 'SessionNotOnOrAfter' if b.get('sess') is not None else 'Conditions NotOnOrAfter'))
    near = case.get('near', True)
    return label + ('|' + v[0]), bool(near)


def grid():
    now = spside.NOW
    FAR = 7200
    out = []
    ks = [-3, -2, -1, 0, 1, 2, 3]
    for s in ALLOWANCES:
        comfy = {'cnb': now - s - FAR, 'cnooa': now + s + FAR, 'snooa': now + s + FAR, 'snb': None, 'sess': now + s + 2 * FAR}
        subsets = [('all', dict(comfy)), ('minimal', {'snooa': comfy['snooa']}), ('no-session', dict(comfy, sess=None))]
        for judged in BOUNDS:
            for name, base in subsets:
                if judged in ('cnooa', 'snooa', 'sess'):
                    places = [now - s + k for k in ks] + [now + s + k for k in ks] + [now - s - FAR, now + s + FAR, now - 10 * DAY]
                else:
                    places = [now + s + k for k in ks] + [now - s + k for k in ks] + [now + s + FAR, now - s - FAR, now + 10 * DAY]
                for i, p in enumerate(sorted(set(places))):
                    bounds = dict(base)
                    bounds[judged] = p
                    out.append({'s': s, 'judged': judged, 'subset': name, 'bounds': bounds, 'ii': now, 'spell': (i + len(out)) % len(SPELL),
                                'near': abs(p - now) <= s + 3})
        # several AuthnStatements: the judged SessionNotOnOrAfter sits on the second / first of two statements, the other one is comfortable or absent
        for stmts in (1, 2):
            for other in (comfy['sess'], None):
                for p in [now - s + k for k in ks] + [now - s - FAR, now - 10 * DAY, now + s + FAR]:
                    out.append({'s': s, 'judged': 'sess2', 'subset': 'all', 'bounds': dict(comfy, sess=other, sess2=p), 'ii': now, 'spell': len(out) % len(SPELL), 'stmts': stmts,
                                'near': abs(p - now) <= s + 3})
        # a second bearer confirmation whose NotOnOrAfter is the judged bound, the first one comfortable (and the other way round by position)
        for pos in (1, 2):
            for p in [now - s + k for k in ks] + [now - s - FAR, now - 10 * DAY, now + s + FAR]:
                out.append({'s': s, 'judged': 'snooa2', 'subset': 'all', 'bounds': dict(comfy, snooa2=p), 'ii': now, 'spell': len(out) % len(SPELL), 'scd2': pos, 'near': abs(p - now) <= s + 3})
        # inverted windows (NotBefore later than NotOnOrAfter) whose two bounds both lie inside the allowance around now, so that neither bound fails by itself:
        # on the Conditions, on the only confirmation, and on one of two confirmations (either position; the other one comfortable / unbounded)
        for half in sorted(set([1, max(1, s // 2), max(1, s - 1)])):
            if half > s:
                continue
            inv = {'snb': now + half, 'snooa': now - half}
            out.append({'s': s, 'judged': 'inverted-scd', 'subset': 'all', 'bounds': dict(comfy, **inv), 'ii': now, 'spell': 0, 'near': True})
            for pos in (1, 2):
                for other in (comfy['snooa'], None):
                    out.append({'s': s, 'judged': 'inverted-scd-of-two', 'subset': 'all', 'bounds': dict(comfy, snooa2=other, **inv), 'ii': now, 'spell': 0, 'scd2': pos, 'near': True})
            out.append({'s': s, 'judged': 'inverted-conditions', 'subset': 'all', 'bounds': dict(comfy, cnb=now + half, cnooa=now - half), 'ii': now, 'spell': 0, 'near': True})
        # the attribute-query answer entry point: Conditions and confirmation bounds
        for judged in ('cnb', 'cnooa', 'snooa'):
            if judged == 'cnb':
                places = [now + s + k for k in ks] + [now + s + FAR, now - s - FAR]
            else:
                places = [now - s + k for k in ks] + [now - s - FAR, now + s + FAR]
            for p in places:
                out.append({'s': s, 'judged': 'attrq-' + judged, 'subset': 'all', 'bounds': dict(comfy, **{judged: p}), 'ii': now, 'spell': len(out) % len(SPELL), 'entry': 'attrq', 'near': abs(p - now) <= s + 3})
        # ... and the AuthnQuery answer entry point
        for judged in ('cnb', 'cnooa', 'snooa', 'sess'):
            places = [now + s + 2, now + s + FAR] if judged == 'cnb' else [now - s - 2, now - s - FAR]
            for p in places:
                out.append({'s': s, 'judged': 'authnq-' + judged, 'subset': 'all', 'bounds': dict(comfy, **{judged: p}), 'ii': now, 'spell': 0, 'entry': 'authnq', 'near': True})
        out.append({'s': s, 'judged': 'authnq-comfortable', 'subset': 'all', 'bounds': dict(comfy), 'ii': now, 'spell': 0, 'entry': 'authnq', 'near': True})
        for d in (1, s + 5):
            out.append({'s': s, 'judged': 'attrq-order', 'subset': 'all', 'bounds': dict(comfy, cnb=now + FAR + d, cnooa=now + FAR), 'ii': now, 'spell': 0, 'entry': 'attrq', 'near': True})
        # zone-offset spellings of a bound that has really passed / is really not yet reached, by less and by more than the offset
        for z in range(len(ZONED)):
            for judged in BOUNDS:
                for dist in (5, 1800, 3 * 3600, 15 * 3600):
                    p = now - s - dist if judged in ('cnooa', 'snooa', 'sess') else now + s + dist
                    out.append({'s': s, 'judged': 'zoned-' + judged, 'subset': 'all', 'bounds': dict(comfy, **{judged: p}), 'ii': now, 'spell': 100 + z, 'near': True})
            out.append({'s': s, 'judged': 'zoned-comfortable', 'subset': 'all', 'bounds': dict(comfy), 'ii': now, 'spell': 100 + z, 'near': True})
        # the local time zone of the process is not UTC: instants stay what they are
        if s in (0, 300):
            for tzname in ('<+05>-5', '<-05>5', 'XYZ-13'):
                for judged in BOUNDS:
                    for dist in (3600, 4 * 3600):
                        p = now - s - dist if judged in ('cnooa', 'snooa', 'sess') else now + s + dist
                        out.append({'s': s, 'judged': 'tz-' + judged, 'subset': 'all', 'bounds': dict(comfy, **{judged: p}), 'ii': now, 'spell': 0, 'near': True, 'tz': tzname})
                out.append({'s': s, 'judged': 'tz-comfortable', 'subset': 'all', 'bounds': dict(comfy), 'ii': now, 'spell': 0, 'near': True, 'tz': tzname})
                for k in (DAY + s + 3600, -(DAY + s + 3600)):
                    out.append({'s': s, 'judged': 'tz-issue_instant', 'subset': 'all', 'bounds': dict(comfy), 'ii': now + k, 'spell': 0, 'near': True, 'tz': tzname})
        # IssueInstant
        for sign in (-1, 1):
            for k in ks + [FAR, -FAR]:
                for edge in (DAY + s, DAY):
                    out.append({'s': s, 'judged': 'issue_instant', 'subset': 'all', 'bounds': dict(comfy), 'ii': now + sign * (edge + k), 'spell': len(out) % len(SPELL), 'near': abs(k) <= 3})
                    if k in (-3, 3, FAR):
                        out.append({'s': s, 'judged': 'issue_instant-soap', 'subset': 'all', 'bounds': dict(comfy), 'ii': now + sign * (edge + k), 'spell': 0, 'near': abs(k) <= 3, 'entry': 'soap'})
        for judged in ('cnooa', 'snooa'):
            out.append({'s': s, 'judged': 'soap-' + judged, 'subset': 'all', 'bounds': dict(comfy, **{judged: now - s - FAR}), 'ii': now, 'spell': 0, 'near': True, 'entry': 'soap'})
        # ordering violations, each bound individually inside its allowance-widened window where possible
        for d in (1, 5, s + 5):
            out.append({'s': s, 'judged': 'order-cond', 'subset': 'all', 'bounds': dict(comfy, cnb=now + d, cnooa=now - d), 'ii': now, 'spell': 0, 'near': True})
            out.append({'s': s, 'judged': 'order-cond', 'subset': 'all', 'bounds': dict(comfy, cnb=now + FAR + d, cnooa=now + FAR), 'ii': now, 'spell': 0, 'near': True})
            out.append({'s': s, 'judged': 'order-scd', 'subset': 'all', 'bounds': dict(comfy, snb=now + d, snooa=now - d), 'ii': now, 'spell': 0, 'near': True})
            out.append({'s': s, 'judged': 'order-scd', 'subset': 'all', 'bounds': dict(comfy, snb=now - s - FAR, snooa=now - s - FAR - d), 'ii': now, 'spell': 0, 'near': True})
    return out


def generated_strategy():
    from hypothesis import strategies as st
    now = spside.NOW

    def offsets(s):
        edges = [-s, s, 0]
        near = st.builds(lambda e, k: e + k, st.sampled_from(edges), st.integers(-4, 4))
        return st.one_of(near, st.sampled_from([-7200 - s, 7200 + s, -10 * DAY, 10 * DAY]), st.integers(-2 * s - 10, 2 * s + 10))

    def build_case(s):
        opt = lambda: st.one_of(st.none(), offsets(s).map(lambda o: now + o))
        return st.fixed_dictionaries({'s': st.just(s), 'judged': st.just('multi'),
                                      'bounds': st.fixed_dictionaries({'cnb': opt(), 'cnooa': opt(), 'snooa': st.one_of(opt(), offsets(s).map(lambda o: now + o)), 'snb': st.one_of(st.none(), st.none(), opt()), 'sess': opt(), 'sess2': opt(), 'snooa2': opt()}),
                                      'stmts': st.sampled_from([0, 0, 0, 1, 2]), 'scd2': st.sampled_from([0, 0, 0, 1, 2]), 'entry': st.sampled_from(['authn', 'authn', 'authn', 'attrq']),
                                      'ii': st.one_of(st.just(now), st.sampled_from([-1, 1]).flatmap(lambda sg: st.integers(-5, 5).map(lambda k: now + sg * (DAY + s + k)))),
                                      'spell': st.one_of(st.integers(0, len(SPELL) - 1), st.integers(0, len(SPELL) - 1), st.integers(100, 100 + len(ZONED) - 1)), 'near': st.just(True)})
    return st.sampled_from(ALLOWANCES).flatmap(build_case)


# ------------------------------------------------------------------ the same bounds at two moments
def later_cases():
    out = []
    for s in (0, 180):
        for kind in ('same-sp', 'other-sp-smaller-allowance'):
            for gap in (5, 3600):
                out.append({'s': s, 'kind': kind, 'gap': gap})
    return out


def run_later(case):
    """two responses with byte-identical time bounds, the first delivered inside the window and the second after it has closed (to the same SP, or to a second SP of the
    process that has a smaller allowance): the verdict is taken against the clock at delivery"""
    now = spside.NOW
    s = case['s']
    sp1 = spside.sp_for({'accepted_time_diff': s} if s else {})
    sp2 = sp1 if case['kind'] == 'same-sp' else spside.sp_for({'accepted_time_diff': 0, 'want_assertions_signed': False})
    window = 600
    verdicts = []
    for n, (sp, t) in enumerate(((sp1, now), (sp2, now + window + (s if sp2 is sp1 else 0) + case['gap']))):
        clock.set_now(t)
        r, a = build.standard(now, rid='id-resp-l%d' % n, aid='id-a-l%d' % n)
        r['issue_instant'] = build.ts(t)
        a['conditions']['not_before'] = build.ts(now - 60)
        a['conditions']['not_on_or_after'] = build.ts(now + window)
        a['subject']['confirmations'][0]['data']['not_on_or_after'] = build.ts(now + window)
        verdicts.append(spside.deliver(sp, build.render(r, [a], sign_response=1)))
    clock.set_now(now)
    if verdicts[0][0] != 'accept':
        raise Inconclusive('first delivery (inside the window) not accepted: %r' % (verdicts[0][1:],))
    if verdicts[1][0] == 'accept':
        raise Violation('accepted-outside-window', 'a response with Conditions / confirmation NotOnOrAfter = T+%d was accepted %d s after that instant (allowance %d) by %s; '
                        'an earlier response with the same bounds had been accepted inside the window' % (window, (s if sp2 is sp1 else 0) + case['gap'], s if sp2 is sp1 else 0,
                                                                                                        'the same SP' if sp2 is sp1 else 'another SP of the process'))
    return 'later|%s|reject' % case['kind'], True



def parts(tier):
    quick = tier != 'thorough'
    return [
        Part('grid', run, cases=grid, exhaustive=True, mandatory=['reject|cnooa|reject', 'accept|cnooa|accept', 'reject|issue_instant|reject', 'reject|order-scd|reject', 'accept|sess|accept']),
        Part('generated', run, strategy=generated_strategy, examples=1500 if quick else 60000),
        Part('same-bounds-later', run_later, cases=later_cases, exhaustive=True),
    ]
