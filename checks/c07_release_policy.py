"""C07 - an IdP never releases attributes beyond what its policy allows.

Generated identities x policies x SP metadata declarations; the IdP's responses (authentication and attribute
responses, unsigned) are read with plain ElementTree and every released (attribute, value) pair must be in the
identity and allowed by the permissive reference policy model."""
from harness.runner import Part, Violation
from harness import build, world, clock
from harness.models import policy as P

PROPERTY = 'C07'
LEVEL = 'exploration'
RULE = ('Hypothesis: identity over mapped names (case variants), unmapped names, multi-valued / empty / non-ASCII values x policy {absent, default, per-SP, both} with '
        'attribute_restrictions {absent, None, name only, regex lists}, entity_categories subsets of the shipped modules, fail_on_missing_requested x SP metadata with 0-2 '
        'identity values handed over as str / bytes / int lists (a bare single value only against attribute_restrictions, whose filter handles it); AttributeConsumingServices (required/optional spelled true/false/1/0, by friendly name and/or name+format, value constraints, unsatisfiable requirements) x SP entity categories x '
        '{create_authn_response, create_attribute_response}. Non-trivial = the model forbids at least one (attribute, value) of the identity; distinct = distinct case.')
ASSUMPTIONS = ['reference policy = most permissive reading of the statement and docs/howto/config.rst (subset oracle: releasing less is never flagged)',
               'responses are unsigned (no tool involved); output read with stdlib ElementTree']

SP = 'https://sp.verif.example/sp'
SPIDS = [SP, 'https://SP.Verif.example/Shibboleth']
ACS = 'https://sp.verif.example/acs/post'
A = '{urn:oasis:names:tc:SAML:2.0:assertion}'
PR = '{urn:oasis:names:tc:SAML:2.0:protocol}'
URI = 'urn:oasis:names:tc:SAML:2.0:attrname-format:uri'
OIDS = {'givenName': 'urn:oid:2.5.4.42', 'sn': 'urn:oid:2.5.4.4', 'mail': 'urn:oid:0.9.2342.19200300.100.1.3', 'displayName': 'urn:oid:2.16.840.1.113730.3.1.241',
        'eduPersonAffiliation': 'urn:oid:1.3.6.1.4.1.5923.1.1.1.1', 'eduPersonPrincipalName': 'urn:oid:1.3.6.1.4.1.5923.1.1.1.6',
        'eduPersonScopedAffiliation': 'urn:oid:1.3.6.1.4.1.5923.1.1.1.9', 'title': 'urn:oid:2.5.4.12', 'uid': 'urn:oid:0.9.2342.19200300.100.1.1', 'cn': 'urn:oid:2.5.4.3',
        'o': 'urn:oid:2.5.4.10', 'telephoneNumber': 'urn:oid:2.5.4.20', 'schacHomeOrganization': 'urn:oid:1.3.6.1.4.1.25178.1.2.9'}
NAMES = sorted(OIDS)
VARIANTS = ['GivenName', 'MAIL', 'Sn', 'displayname']
UNMAPPED = ['secretAttr', 'internalId', 'x-role']
VALUES = ['staff', 'member', 'student', 'alice@example.org', 'bob@other.example', 'Alice', u'\xc5sa', '', 'A1', 'secret-token-1', 'staff ']
PATTERNS = ['^staff$', 'mem.*', r'.*@example\.org', 'A', 'student|staff', '.*', '^1[0-3]$']
CATS = {'coco': 'http://www.geant.net/uri/dataprotection-code-of-conduct/v1', 'rs': 'http://refeds.org/category/research-and-scholarship',
        're': 'http://www.swamid.se/category/research-and-education', 'hei': 'http://www.swamid.se/category/hei-service', 'sfs': 'http://www.swamid.se/category/sfs-1993-1153'}
MODULES = ['edugain', 'refeds', 'swamid', 'incommon']


def case_strategy():
    from hypothesis import strategies as st
    name = st.one_of(st.sampled_from(NAMES), st.sampled_from(NAMES), st.sampled_from(VARIANTS), st.sampled_from(UNMAPPED))
    identity = st.dictionaries(name, st.lists(st.sampled_from(VALUES), min_size=0, max_size=3), min_size=1, max_size=7)

    def rest(identity):
        keys = sorted(identity)
        # restriction / declaration names are mostly drawn from the identity's own names (in any case variant), so that filters bite
        near = st.sampled_from(keys).flatmap(lambda k: st.sampled_from([k, k.lower(), k.upper()]))
        rname = st.one_of(near, near, st.sampled_from(NAMES), st.sampled_from(UNMAPPED))
        restr = st.one_of(st.none(), st.dictionaries(rname, st.one_of(st.none(), st.lists(st.sampled_from(PATTERNS), min_size=1, max_size=2)), min_size=1, max_size=4))

        def entry():
            return st.fixed_dictionaries({}, optional={'attribute_restrictions': restr, 'entity_categories': st.lists(st.sampled_from(MODULES), min_size=1, max_size=2, unique=True),
                                                       'fail_on_missing_requested': st.booleans()})
        policy = st.one_of(st.none(), st.fixed_dictionaries({}, optional={'default': entry(), SP: entry()}))
        mapped = [k for k in keys if k in OIDS] or NAMES
        req = st.fixed_dictionaries({'attr': st.one_of(st.sampled_from(mapped), st.sampled_from(NAMES)), 'by': st.sampled_from(['friendly', 'name+format', 'both', 'name-only']),
                                     'required': st.sampled_from([True, False, True, False, '1', '0']), 'values': st.lists(st.sampled_from(VALUES[:6]), max_size=2)})
        return st.fixed_dictionaries({'identity': st.just(identity), 'policy': policy, 'services': st.lists(st.lists(req, min_size=1, max_size=4), max_size=2),
                                      # how the application hands over the values: lists of str (usual), bytes (LDAP style), ints, or a bare single value
                                      # (a bare single value is only used in the enumerated value-representations part, on the one filter that documents it:
                                      # elsewhere the library iterates the value, and identities are dictionaries of lists)
                                      'valrep': st.sampled_from(['str', 'str', 'str', 'str', 'bytes', 'int']),
                                      # an attribute query may list the attributes it wants (names drawn from the identity and from outside it)
                                      # third-party shaped metadata: a second SPSSODescriptor (other protocol support / endpoints) without attribute declarations, before or after
                                      'second_descriptor': st.sampled_from([None, None, None, 'before', 'after']),
                                      'sp_support_cats': st.one_of(st.just([]), st.just([]), st.lists(st.sampled_from(sorted(CATS)), min_size=1, max_size=2, unique=True)),
                                      # the SP's entity identifier as it is used as key of the per-SP policy entry: lower case, or with upper-case letters
                                      'sp_id': st.sampled_from([0, 0, 1]),
                                      'query_attrs': st.one_of(st.none(), st.lists(st.one_of(st.sampled_from(keys), st.sampled_from(NAMES)), min_size=1, max_size=4, unique=True)),
                                      'sp_cats': st.lists(st.sampled_from(sorted(CATS)), max_size=3, unique=True),
                                      'call': st.sampled_from(['authn', 'authn', 'attribute'])})
    return identity.flatmap(rest)


def sp_metadata(case, entityid=None, acs=None):
    services = []
    requested = []
    for svc in case['services']:
        rl = []
        for r in svc:
            # xs:boolean has two lexical forms per value: isRequired may be spelled true/false or 1/0
            d = {'name': OIDS[r['attr']], 'required': r['required'] in (True, '1'), 'values': [v for v in r['values'] if v]}
            if isinstance(r['required'], str):
                d['required_spelling'] = r['required']
            if r['by'] in ('friendly', 'both'):
                d['friendly_name'] = r['attr']
            if r['by'] in ('name+format', 'both'):
                d['name_format'] = URI
            rl.append(d)
            requested.append(d)
        services.append({'requested': rl})
    ext = ''
    eattrs = ''
    for name, cats in (('http://macedir.org/entity-category', case['sp_cats']),
                       # categories the entity merely *supports* (what an IdP or proxy publishes): no entitlement follows from them
                       ('http://macedir.org/entity-category-support', case.get('sp_support_cats') or [])):
        if cats:
            eattrs += '<saml:Attribute xmlns:saml="urn:oasis:names:tc:SAML:2.0:assertion" Name="%s" NameFormat="%s">%s</saml:Attribute>' % (
                name, URI, ''.join('<saml:AttributeValue>%s</saml:AttributeValue>' % CATS[c] for c in cats))
    if eattrs:
        ext = '<mdattr:EntityAttributes xmlns:mdattr="urn:oasis:names:tc:SAML:metadata:attribute">%s</mdattr:EntityAttributes>' % eattrs
    main = {'keys': [('signing', 0)], 'acs': [(world.POST, acs or ACS, 0, True)], 'attribute_consuming': services}
    bare = {'keys': [('signing', 0)], 'acs': [(world.POST, (acs or ACS) + '/legacy', 1, False)], 'protocols': 'urn:oasis:names:tc:SAML:2.0:protocol urn:oasis:names:tc:SAML:1.1:protocol'}
    second = case.get('second_descriptor')
    spec = {'entityid': entityid or SP, 'extensions': ext}
    if second == 'before':
        spec.update(sp=bare, more_sp=[main])
    elif second == 'after':
        spec.update(sp=main, more_sp=[bare])
    else:
        spec['sp'] = main
    md = build.entity_xml(spec)
    return md, requested


def released(xml):
    from xml.etree import ElementTree as ET
    root = ET.fromstring(xml.encode('utf-8'))
    status = root.find(PR + 'Status/' + PR + 'StatusCode')
    ok = status is not None and status.get('Value', '').endswith(':Success')
    pairs = []
    for at in root.iter(A + 'Attribute'):
        key = at.get('FriendlyName') or at.get('Name')
        vals = []
        for v in at.findall(A + 'AttributeValue'):
            inner = v.find(A + 'NameID')
            vals.append((inner.text if inner is not None else v.text) or '')
        pairs.append((key, at.get('Name'), vals))
    return ok, pairs


def run(case):
    from saml2_tophat import samlp, saml
    SP = SPIDS[case.get('sp_id', 0)]
    md, requested = sp_metadata(case, entityid=SP)
    spec = dict(world.DEFAULT_IDP)
    policy = case['policy']
    if policy is not None and SPIDS[0] in policy and SP != SPIDS[0]:
        policy = dict((SP if k == SPIDS[0] else k, v) for k, v in policy.items())
    case = dict(case, policy=policy)
    if case['policy'] is not None:
        spec['policy'] = case['policy']
    spec['aa'] = [('https://idp.verif.example/aa', world.SOAP)]
    idp = world.make_idp(world.idp_conf(spec, [md]))
    identity = dict((k, list(v)) for k, v in case['identity'].items())
    valrep = case.get('valrep', 'str')
    handed = dict(identity)
    if valrep == 'bytes':
        handed = dict((k, [v.encode('utf-8') for v in vs]) for k, vs in identity.items())
    elif valrep == 'int':
        handed = dict((k, [VALUES.index(v) + 10 for v in vs]) for k, vs in identity.items())
        identity = dict((k, [str(VALUES.index(v) + 10) for v in vs]) for k, vs in identity.items())     # the text the values have on the wire
    elif valrep == 'single':
        handed = dict((k, (vs[0] if len(vs) == 1 else list(vs))) for k, vs in identity.items())
    try:
        if case['call'] == 'authn':
            resp = idp.create_authn_response(dict(handed), 'id-req-1', ACS, SP, userid='user-1',
                                             name_id_policy=samlp.NameIDPolicy(format=saml.NAMEID_FORMAT_TRANSIENT, allow_create='true'),
                                             authn={'class_ref': build.PASSWORD, 'authn_auth': 'https://idp.verif.example/login'})
        else:
            kwq = {}
            if case.get('query_attrs'):
                kwq['attributes'] = [saml.Attribute(name=OIDS.get(n, n), name_format=URI, friendly_name=n) for n in case['query_attrs']]
            resp = idp.create_attribute_response(dict(handed), 'id-req-1', ACS, SP, userid='user-1',
                                                 name_id=saml.NameID(format=saml.NAMEID_FORMAT_TRANSIENT, text='subject-1'), **kwq)
    except Exception as e:
        return 'raised|' + type(e).__name__ + ('' if valrep == 'str' else '|' + valrep), False
    xml = str(resp)
    ok, pairs = released(xml)
    if case['call'] == 'attribute' and not case['policy']:
        # an attribute authority without any configured release policy applies none (no narrowing is claimed by the statement)
        model = P.Model(None, SP, [], [])
    else:
        model = P.Model(case['policy'], SP, [CATS[c] for c in case['sp_cats']], requested)
    forbidden = [(k, v) for k, vs in identity.items() for v in vs if model.allowed(k, v)]
    if not ok and pairs:
        raise Violation('attributes-in-error-response', 'non-success response carries attributes %r' % (pairs,))
    for key, name, vals in pairs:
        if key not in identity and name not in identity:
            cands = [k for k in identity if k.lower() == (key or '').lower()]
            if not cands:
                raise Violation('released-not-in-identity', 'attribute %r (%r) is not in the identity %r' % (key, name, sorted(identity)))
            k = cands[0]
        else:
            k = key if key in identity else name
        for v in vals:
            if v not in identity[k]:
                raise Violation('released-value-not-in-identity', 'value %r of %r is not in the identity (%r)' % (v, k, identity[k]))
            why = model.allowed(k, v)
            if why:
                raise Violation('released-beyond-policy', '%s response releases %r=%r: %s (policy %r, SP categories %r, declared %r)'
                                % (case['call'], k, v, why, case['policy'], case['sp_cats'], [(r.get('friendly_name') or r['name'], r['required']) for r in requested]),
                                detail={'why': why})
    feats = []
    if model.restr:
        feats.append('restr')
    if model.by_category is not None:
        feats.append('category')
    elif requested:
        feats.append('declared')
    label = ('success' if ok else 'error') + '|' + '+'.join(feats or ['open']) + ('|forbidden' if forbidden else '') + ('' if valrep == 'str' else '|' + valrep)
    return label, bool(forbidden)


def sequence_strategy():
    from hypothesis import strategies as st
    base = case_strategy()
    hot = ['eduPersonPrincipalName', 'mail', 'displayName', 'cn', 'eduPersonAffiliation', 'eduPersonScopedAffiliation', 'givenName', 'sn']
    spdecl = st.fixed_dictionaries({'services': st.lists(st.lists(st.fixed_dictionaries({
        'attr': st.one_of(st.sampled_from(hot), st.sampled_from(NAMES)), 'by': st.sampled_from(['friendly', 'both']), 'required': st.sampled_from([True, True, False, '1', '0', '0']),
        'values': st.just([])}), min_size=1, max_size=5), max_size=1),
        'sp_cats': st.one_of(st.just(['coco']), st.just(['coco']), st.just(['rs']), st.lists(st.sampled_from(sorted(CATS)), max_size=2, unique=True))})
    ident = st.one_of(st.dictionaries(st.sampled_from(NAMES), st.lists(st.sampled_from(VALUES), min_size=1, max_size=2), min_size=3, max_size=9),
                      st.just(dict((n, ['staff']) for n in NAMES)))
    catpol = st.lists(st.sampled_from(MODULES), min_size=1, max_size=2, unique=True).map(lambda m: {'default': {'entity_categories': m}})
    return st.fixed_dictionaries({'policy': st.one_of(catpol, catpol, base.map(lambda c: c['policy'])), 'sps': st.lists(spdecl, min_size=2, max_size=3),
                                  'calls': st.lists(st.tuples(st.integers(0, 2), ident).map(list), min_size=2, max_size=6)})


def run_sequence(case):
    """one long-lived IdP answering several SPs in turn: state kept between answers must not widen a later release"""
    from saml2_tophat import samlp, saml
    mds, reqs = [], []
    for i, sp in enumerate(case['sps']):
        md, requested = sp_metadata(sp, 'https://sp%d.verif.example/sp' % i, 'https://sp%d.verif.example/acs' % i)
        mds.append(md)
        reqs.append(requested)
    spec = dict(world.DEFAULT_IDP)
    policy = case['policy']
    if policy is not None:
        policy = dict(policy)
        if SP in policy:        # the per-SP entry applies to the first SP
            policy['https://sp0.verif.example/sp'] = policy.pop(SP)
        spec['policy'] = policy
    idp = world.make_idp(world.idp_conf(spec, mds))
    forbidden_any = False
    for n, (i, identity) in enumerate(case['calls']):
        i = i % len(case['sps'])
        sp = 'https://sp%d.verif.example/sp' % i
        try:
            resp = idp.create_authn_response(dict((k, list(v)) for k, v in identity.items()), 'id-req-%d' % n, 'https://sp%d.verif.example/acs' % i, sp, userid='user-1',
                                             name_id_policy=samlp.NameIDPolicy(format=saml.NAMEID_FORMAT_TRANSIENT, allow_create='true'),
                                             authn={'class_ref': build.PASSWORD, 'authn_auth': 'https://idp.verif.example/login'})
        except Exception:
            continue
        ok, pairs = released(str(resp))
        model = P.Model(policy, sp, [CATS[c] for c in case['sps'][i]['sp_cats']], reqs[i])
        if any(model.allowed(k, v) for k, vs in identity.items() for v in vs):
            forbidden_any = True
        for key, name, vals in pairs:
            k = key if key in identity else name
            if k not in identity:
                raise Violation('released-not-in-identity', 'call %d: attribute %r not in the identity' % (n, key))
            for v in vals:
                why = model.allowed(k, v) if v in identity[k] else 'value not in identity'
                if why:
                    raise Violation('released-beyond-policy-in-sequence', 'call %d (SP %d after calls for SPs %r): releases %r=%r: %s'
                                    % (n, i, [c[0] % len(case['sps']) for c in case['calls'][:n]], k, v, why))
    return 'sequence|%d-sps' % len(case['sps']) + ('|forbidden' if forbidden_any else ''), forbidden_any


def known_match(part, case, v):
    return None


def representation_cases():
    """every value representation x every pattern x both calls, over an identity whose attributes each hold a matching and a non-matching value"""
    out = []
    for valrep in ('str', 'bytes', 'int', 'single'):
        for pat in PATTERNS:
            for call in ('authn', 'attribute'):
                for attr, vals in (('mail', ['alice@example.org', 'bob@other.example']), ('eduPersonAffiliation', ['staff', 'member', 'student']), ('givenName', ['Alice', 'A1', 'secret-token-1'])):
                    for vs in ([vals[0]], [vals[-1]], vals):
                        out.append({'identity': {attr: list(vs), 'sn': ['Smith'] if valrep != 'int' else ['staff']}, 'policy': {'default': {'attribute_restrictions': {attr: [pat], 'sn': None}}},
                                    'services': [], 'sp_cats': [], 'call': call, 'valrep': valrep})
    return out


def parts(tier):
    quick = tier != 'thorough'
    return [Part('value-representations', run, cases=representation_cases, exhaustive=True),
            Part('policies', run, strategy=case_strategy, examples=3000 if quick else 100000),
            Part('sequences', run_sequence, strategy=sequence_strategy, examples=1000 if quick else 25000)]
