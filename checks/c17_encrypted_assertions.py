"""C17 - encrypted assertions stay confidential and are validated like plain ones.

idp-confidentiality: the IdP encrypts generated identities (high-entropy tokens) for SPs with 1-2 encryption certificates,
with every sign / advice / self-contained / PEFIM option; no token may occur in the emitted bytes, the harness must be able
to decrypt with the SP's (first) private key and with no other pool key.
sp-equal-validation: harness-built responses carrying a fault inside the assertion (signature, validity window, audience,
solicitation, wrapping) are delivered once in clear and once encrypted: the encrypted verdict must not be more permissive
(metamorphic relation).  undecryptable: content encrypted for a key the SP does not hold never yields an identity."""
import re
from harness.runner import Part, Violation
from harness import build, world, clock, spside, xmlmut

PROPERTY = 'C17'
LEVEL = 'exploration'
RULE = ('metadata-reload: one long-lived IdP whose SP metadata source is re-loaded with another / a first / no encryption certificate between two responses (enumerated); idp-confidentiality: Hypothesis identities of 12-24 character random tokens (names of >= 5 characters from the shipped maps) x sign_response x sign_assertion x '
        '{encrypt_assertion, encrypted advice attributes (PEFIM)} x self-contained namespaces x SP encryption certificates {[2],[2,3],[3,2]} x certificate named by the caller {none, the first or second of the SP, a third party}; '
        'sp-equal-validation: fault in {none, content edit after signing, wrong signing key, unsigned, expired Conditions / SCD / session, not-yet-valid, foreign audience, two '
        'restrictions, SCD InResponseTo other/unknown, unknown InResponseTo, foreign recipient with conv_info, XSW construction} x SP options x allow_unsolicited x encryption for the '
        'SP\'s first / second key x block cipher x key transport; each delivered plain and encrypted. Non-trivial = EncryptedData present (and, SP half, a fault inside); distinct = distinct case.')
ASSUMPTIONS = ['xmlsec1 stand-in encrypts / decrypts (3DES, AES-128/256-CBC; RSA-1_5, RSA-OAEP); frozen clock',
               'harness-encrypted plaintext is namespace-self-contained (the SP decrypts its own re-serialisation of the response)']

NOW = spside.NOW
NAMES = ['givenName', 'displayName', 'eduPersonAffiliation', 'telephoneNumber', 'postalAddress', 'eduPersonPrincipalName', 'title']
OID = {'givenName': 'urn:oid:2.5.4.42', 'displayName': 'urn:oid:2.16.840.1.113730.3.1.241', 'eduPersonAffiliation': 'urn:oid:1.3.6.1.4.1.5923.1.1.1.1',
       'telephoneNumber': 'urn:oid:2.5.4.20', 'postalAddress': 'urn:oid:2.5.4.16', 'eduPersonPrincipalName': 'urn:oid:1.3.6.1.4.1.5923.1.1.1.6', 'title': 'urn:oid:2.5.4.12'}
_pairs = {}


def token(prefix='T'):
    from hypothesis import strategies as st
    return st.text(alphabet='bcdfghjkmnpqrstvwxzBCDFGHJKLMNPQRSTVWXZ23456789', min_size=12, max_size=24).map(lambda s: prefix + s)


def has_encrypted(xml):
    return re.search(r'<[\w.-]*:?EncryptedData[\s>]', xml) is not None


def idp_strategy():
    from hypothesis import strategies as st
    return st.fixed_dictionaries({'identity': st.dictionaries(st.sampled_from(NAMES), st.lists(token(), min_size=1, max_size=3), min_size=1, max_size=4), 'name_id': token('N'),
                                  'sign_response': st.booleans(), 'sign_assertion': st.booleans(), 'mode': st.sampled_from(['assertion', 'assertion', 'advice', 'pefim', 'both']),
                                  'self_contained': st.booleans(), 'enc_keys': st.sampled_from([[2], [2, 3], [3, 2]]),
                                  'md': st.sampled_from(['generated', 'generated', 'use-less', 'signing+use-less', 'encryption-only']),
                                  # the caller may name the certificate to encrypt for (e.g. the one carried in a PEFIM request): pool index, or None = the SP's metadata certificate
                                  'explicit': st.sampled_from([None, None, None, 3, 4, 2, 6]),
                                  # how the wish to encrypt reaches the IdP: as an argument of the call, or as `encrypt_assertion` in its service/idp configuration
                                  'asked_by': st.sampled_from(['argument', 'argument', 'config']),
                                  # what the deployment did with the live configuration object before: nothing / rendered its own metadata from it (the entity also serves aa)
                                  'before': st.sampled_from([None, None, 'metadata-rendered']),
                                  # the IdP operator's hook that vets certificates named in requests (verify_encrypt_cert_assertion / _advice): accepts pool certificate 6 only
                                  'hook': st.sampled_from([False, False, False, True])})


def _only_pool_6(cert):
    return ''.join(str(cert).split()).replace('-----BEGINCERTIFICATE-----', '').replace('-----ENDCERTIFICATE-----', '') == world.cert_body(6)


def pair(enc_keys, md='generated', conf_encrypt=False, hook=False):
    k = (tuple(enc_keys), md, conf_encrypt, hook)
    if k not in _pairs:
        idp_spec = {'encrypt_assertion': True, 'aa': [('https://idp.verif.example/aa', world.SOAP)]} if conf_encrypt else None
        if hook:
            idp_spec = dict(idp_spec or {}, verify_encrypt_cert_assertion=_only_pool_6, verify_encrypt_cert_advice=_only_pool_6)
        sp, idp, spmd, idpmd = world.pair({'enc_keys': list(enc_keys), 'want_response_signed': False}, idp_spec)
        if md != 'generated':
            # SP metadata as other products write it: key descriptors without a use attribute serve signing and encryption
            keys = {'use-less': [(None, enc_keys[0])], 'signing+use-less': [('signing', 0), (None, enc_keys[0])], 'encryption-only': [('encryption', enc_keys[0])]}[md]
            spmd = build.entity_xml({'entityid': spside.SP, 'sp': {'keys': keys, 'acs': [(world.POST, spside.ACS_POST, 0, True)]}})
            idp = world.make_idp(world.idp_conf(dict(world.DEFAULT_IDP, **(idp_spec or {})), [spmd]))
        clock.install()
        _pairs[k] = (sp, idp)
    return _pairs[k]


def run_idp(case):
    from saml2_tophat import saml
    by_conf = case.get('asked_by') == 'config' or case.get('before') is not None
    sp, idp = pair(case['enc_keys'], case.get('md', 'generated'), by_conf, bool(case.get('hook')))
    clock.set_now(NOW)
    identity = dict((k, list(v)) for k, v in case['identity'].items())
    mode = case['mode']
    if case.get('before') == 'metadata-rendered':
        from saml2_tophat.metadata import entity_descriptor
        entity_descriptor(idp.config)
    kw = dict(in_response_to='id-req-1', destination=spside.ACS_POST, sp_entity_id=spside.SP,
              name_id=saml.NameID(format=saml.NAMEID_FORMAT_PERSISTENT, text=case['name_id']),
              authn={'class_ref': build.PASSWORD, 'authn_auth': 'https://idp.verif.example/login'},
              sign_response=case['sign_response'], sign_assertion=case['sign_assertion'], encrypt_assertion_self_contained=case['self_contained'])
    if mode in ('assertion', 'both') and case.get('asked_by') != 'config':
        kw['encrypt_assertion'] = True
    if mode in ('advice', 'both'):
        kw['encrypted_advice_attributes'] = True
        kw['pefim'] = True
    if mode == 'pefim':
        kw['pefim'] = True
    recipient = case['enc_keys'][0]
    if case.get('explicit') is not None:
        recipient = case['explicit']
        kw['encrypt_cert_assertion'] = world.cert_body(recipient)
        kw['encrypt_cert_advice'] = world.cert_body(recipient)
    try:
        xml = str(idp.create_authn_response(dict(identity), **kw))
    except Exception as e:
        return 'idp-raises|' + type(e).__name__ + ('|hook' if case.get('hook') else ''), bool(case.get('hook'))
    if case.get('hook') and case.get('explicit') != 6:
        # the operator's hook accepts pool certificate 6 only: a response must not be produced for a named certificate it refuses, nor without a named one
        raise Violation('refused-certificate-used', 'mode %s: the IdP\'s certificate hook accepts pool certificate 6 only; the request named %s and a response was emitted all the same'
                        % (mode, 'pool certificate %r' % case['explicit'] if case.get('explicit') is not None else 'none'))
    if not has_encrypted(xml):
        # nothing was encrypted although it was asked for and the SP has an encryption certificate
        raise Violation('not-encrypted', 'mode %s: the SP has encryption certificates %r but the response contains no EncryptedData' % (mode, case['enc_keys']))
    # which tokens belong to an assertion that was to be encrypted
    secret = [v for vs in identity.values() for v in vs]
    names = list(identity) + [OID[n] for n in identity]
    if mode in ('assertion', 'both'):
        secret.append(case['name_id'])
    from xml.sax.saxutils import unescape
    clear = re.sub(r'CipherValue>[^<]*<', 'CipherValue><', xml)
    for t in secret + names:
        if t in clear or t in unescape(clear):
            raise Violation('cleartext-leak', 'mode %s (sign_response=%r sign_assertion=%r self_contained=%r): %r appears in clear in the emitted response'
                            % (mode, case['sign_response'], case['sign_assertion'], case['self_contained'], t))
    # decryptable with the SP's first key only
    cur = xml
    for _ in range(4):
        if not has_encrypted(cur):
            break
        nxt = build.decrypt(cur, recipient)
        if nxt is None:
            raise Violation('not-decryptable-by-sp', 'mode %s: the private key of the certificate the response was to be encrypted for (pool %d, %s) cannot decrypt it'
                            % (mode, recipient, 'named by the caller' if case.get('explicit') is not None else 'the SP\'s first metadata certificate'))
        cur = nxt
    for t in [v for vs in identity.values() for v in vs]:
        if t not in cur:
            raise Violation('plaintext-incomplete', 'decrypted response lacks asserted value %r' % t)
    for other in range(10):
        if other == recipient:
            continue
        if build.decrypt(xml, other) is not None:
            raise Violation('decryptable-by-other-key', 'pool key %d (not the key the assertion was to be encrypted for: pool %d; SP metadata keys %r) decrypts the response' % (other, recipient, case['enc_keys']))
    # and the SP reads it
    if not case['self_contained']:
        # whether the SP can read a non-self-contained plaintext is not part of the statement (DESIGN 3/C17)
        return 'emitted|%s|not-self-contained' % mode, True
    if recipient not in case['enc_keys']:
        return 'emitted|%s|explicit-recipient-is-not-this-sp' % mode, True
    v = spside.deliver(sp, xml)
    if v[0] != 'accept':
        raise Violation('sp-cannot-read-encrypted', 'mode %s: SP rejected the encrypted response: %s %s' % (mode, v[1], v[2]))
    got = dict((k, sorted(vs)) for k, vs in v[1].ava.items())
    if got != dict((k, sorted(vs)) for k, vs in identity.items()):
        raise Violation('sp-reads-different-identity', 'asserted %r, SP read %r' % (identity, got))
    return 'emitted|%s|%s%s|md-%s%s%s' % (mode, 'R' if case['sign_response'] else '', 'A' if case['sign_assertion'] else '', case.get('md', 'generated'),
                                          '|by-config' if case.get('asked_by') == 'config' else '', '|after-metadata' if case.get('before') else ''), True


# ------------------------------------------------------------------ SP half
FAULTS = ['none', 'content-edit', 'wrong-key', 'unsigned', 'cond-expired', 'scd-expired', 'session-expired', 'not-yet-valid', 'foreign-audience', 'two-restrictions',
          'scd-irt-other', 'scd-irt-unknown', 'scd-irt-absent', 'irt-unknown', 'foreign-recipient', 'xsw', 'order-violation', 'no-subject-confirmation', 'status-responder',
          # a second, non-bearer confirmation that names another / an unknown request (the solicitation check looks at every confirmation)
          'nonbearer-irt-other', 'nonbearer-irt-unknown',
          # the only confirmation is a sender-vouches one naming another outstanding request
          'sender-vouches-irt-other']


def sp_strategy():
    from hypothesis import strategies as st
    return st.fixed_dictionaries({'fault': st.sampled_from(FAULTS), 'opts': st.integers(0, 7), 'unsol': st.booleans(), 'enc_key': st.sampled_from([2, 2, 3]),
                                  'block': st.sampled_from(['aes128', 'aes256', '3des']), 'transport': st.sampled_from(['oaep', 'rsa15']), 'alg': st.sampled_from(build.HASHES),
                                  'sign_r': st.booleans(), 'xsw': st.tuples(st.integers(0, 6), st.integers(0, 4), st.integers(0, 3)).map(list), 'conv': st.booleans(),
                                  # None: the assertion is encrypted for a key pair of the SP's configuration; otherwise for pool key 4, whose private key the application hands
                                  # over per request (outstanding_certs) as the n-th of the listed keys
                                  'per_request': st.sampled_from([None, None, None, [4], [4, 5], [5, 4], [5, 4, 6], [5, 6, 4]]),
                                  # what the application stored for its outstanding requests (a return URL, or nothing)
                                  'came': st.sampled_from(['/one', '/one', '', '0'])})


def run_sp(case):
    wrs, was, wors = bool(case['opts'] & 1), bool(case['opts'] & 2), bool(case['opts'] & 4)
    sp = spside.sp_for({'want_response_signed': wrs, 'want_assertions_signed': was, 'want_assertions_or_response_signed': wors, 'allow_unsolicited': case['unsol']})
    clock.set_now(NOW)
    f = case['fault']
    r, a = build.standard(NOW)
    sign_a = 1
    post = None
    if f == 'content-edit':
        post = lambda x, i: x.replace('>Alice<', '>Mallory<')
    elif f == 'wrong-key':
        sign_a = 5
    elif f == 'unsigned':
        sign_a = None
    elif f == 'cond-expired':
        a['conditions']['not_on_or_after'] = build.ts(NOW - 3600)
    elif f == 'scd-expired':
        a['subject']['confirmations'][0]['data']['not_on_or_after'] = build.ts(NOW - 3600)
    elif f == 'session-expired':
        a['authn'][0]['session_not_on_or_after'] = build.ts(NOW - 3600)
    elif f == 'not-yet-valid':
        a['conditions']['not_before'] = build.ts(NOW + 3600)
    elif f == 'foreign-audience':
        a['conditions']['audiences'] = [['https://other-sp.example.org/sp']]
    elif f == 'two-restrictions':
        a['conditions']['audiences'] = [[spside.SP], ['https://other-sp.example.org/sp']]
    elif f == 'scd-irt-other':
        a['subject']['confirmations'][0]['data']['in_response_to'] = 'id-req-2'
    elif f == 'scd-irt-unknown':
        a['subject']['confirmations'][0]['data']['in_response_to'] = 'id-req-nobody'
    elif f == 'scd-irt-absent':
        a['subject']['confirmations'][0]['data']['in_response_to'] = None
    elif f in ('nonbearer-irt-other', 'nonbearer-irt-unknown'):
        a['subject']['confirmations'] = a['subject']['confirmations'] + [
            {'method': 'urn:oasis:names:tc:SAML:2.0:cm:sender-vouches', 'data': {'in_response_to': 'id-req-2' if f.endswith('other') else 'id-req-nobody'}}]
    elif f == 'sender-vouches-irt-other':
        a['subject']['confirmations'][0]['method'] = 'urn:oasis:names:tc:SAML:2.0:cm:sender-vouches'
        a['subject']['confirmations'][0]['data']['in_response_to'] = 'id-req-2'
    elif f == 'irt-unknown':
        r['in_response_to'] = 'id-req-nobody'
        a['subject']['confirmations'][0]['data']['in_response_to'] = 'id-req-nobody'
    elif f == 'foreign-recipient':
        a['subject']['confirmations'][0]['data']['recipient'] = 'https://evil.example.net/acs'
    elif f == 'xsw':
        step = {'op': 'xsw', 'a': 0, 'b': case['xsw'][0], 'c': case['xsw'][1], 'd': case['xsw'][2], 'e': 0}
        post = lambda x, i: (xmlmut.mutate(x, [step])[0] or x)
    elif f == 'order-violation':
        a['conditions']['not_before'] = build.ts(NOW + 30)
        a['conditions']['not_on_or_after'] = build.ts(NOW - 30)
    elif f == 'no-subject-confirmation':
        a['subject']['confirmations'] = []
    elif f == 'status-responder':
        r['status'] = {'code': 'urn:oasis:names:tc:SAML:2.0:status:Responder'}
    sign_r = 1 if (case['sign_r'] or wrs) else None
    kw = {'conv_info': {'entity_id': spside.SP}} if (case['conv'] or f == 'foreign-recipient') else {}
    out = {'id-req-1': case.get('came', '/one'), 'id-req-2': case.get('came', '/one')}
    plain = build.render(r, [a], sign_response=sign_r, sign_assertions=sign_a, alg=case['alg'], post_assertion=post)
    pr = case.get('per_request')
    enc = build.render(r, [a], sign_response=sign_r, sign_assertions=sign_a, alg=case['alg'], post_assertion=post, encrypt_for=4 if pr else case['enc_key'], block=case['block'], transport=case['transport'])
    vp = spside.deliver(sp, plain, outstanding=out, **kw)
    kwe = dict(kw)
    if pr:
        certs = [{'key': open(world.key(k)).read(), 'cert': open(world.crt(k)).read()} for k in pr]
        kwe['outstanding_certs'] = {'id-req-1': certs[0] if len(certs) == 1 else certs, 'id-req-2': certs, 'id-req-nobody': certs}    # keyed by the InResponseTo the response carries
    ve = spside.deliver(sp, enc, outstanding=out, **kwe)
    if ve[0] == 'accept' and vp[0] != 'accept':
        raise Violation('encrypted-more-permissive:' + f, 'fault %s (SP options %r, allow_unsolicited=%r): the plain response is rejected (%s: %s) but the same assertion encrypted is accepted with identity %r'
                        % (f, (wrs, was, wors), case['unsol'], vp[1], vp[2], spside.identity_of(ve[1])))
    if f == 'none' and ve[0] != 'accept' and vp[0] == 'accept':
        raise Violation('valid-encrypted-rejected', 'valid response accepted in clear but rejected encrypted (key %d, %s/%s): %s %s' % (case['enc_key'], case['block'], case['transport'], ve[1], ve[2]))
    if ve[0] == 'accept' and vp[0] == 'accept' and spside.identity_of(ve[1]) != spside.identity_of(vp[1]):
        raise Violation('identity-differs-plain-vs-encrypted', '%r vs %r' % (spside.identity_of(vp[1]), spside.identity_of(ve[1])))
    return '%s|plain-%s|enc-%s%s' % (f, vp[0], ve[0], '|per-request-key-%d-of-%d' % (pr.index(4) + 1, len(pr)) if pr else ''), f != 'none'


ADVICE_XPATH = ''.join("/*[local-name()='%s']" % v for v in ['Response', 'Assertion', 'Advice', 'EncryptedAssertion', 'Assertion'])


def advice_strategy():
    from hypothesis import strategies as st
    return st.fixed_dictionaries({'inner': st.sampled_from(['valid', 'wrong-key', 'content-edit', 'sigval', 'unsigned', 'other-issuer-key', 'schema-invalid-signed', 'schema-invalid-unsigned']), 'opts': st.integers(0, 7),
                                  'main_signed': st.booleans(), 'resp_signed': st.booleans(), 'enc_key': st.sampled_from([2, 3]), 'alg': st.sampled_from(build.HASHES)})


def run_advice(case):
    """a valid main assertion whose Advice carries an encrypted assertion with the attributes (PEFIM shape): a signature present on the
    decrypted advice assertion must verify under the issuer's key like any other"""
    wrs, was, wors = bool(case['opts'] & 1), bool(case['opts'] & 2), bool(case['opts'] & 4)
    sp = spside.sp_for({'want_response_signed': wrs, 'want_assertions_signed': was, 'want_assertions_or_response_signed': wors})
    clock.set_now(NOW)
    r, a = build.standard(NOW)
    inner = dict(a, id='id-advice-1', attributes=[{'name': 'urn:oid:2.5.4.12', 'name_format': 'urn:oasis:names:tc:SAML:2.0:attrname-format:uri', 'friendly_name': 'title', 'values': ['superuser']}])
    inner.pop('authn', None)
    f = case['inner']
    key = {'valid': 1, 'wrong-key': 5, 'content-edit': 1, 'sigval': 1, 'unsigned': None, 'other-issuer-key': 6, 'schema-invalid-signed': 1, 'schema-invalid-unsigned': None}[f]
    if key is not None:
        inner['signature'] = build.sig_template(inner['id'], case['alg'], ('x509', world.cert_body(key)))
    ix = build.assertion_xml(inner)
    if f.startswith('schema-invalid'):
        # a decrypted advice assertion is validated like a plain one: no Version attribute, a non-numeric ProxyRestriction Count (the signature, if any, is made over this content)
        ix = ix.replace(' Version="2.0"', '', 1) if case['opts'] % 2 else ix.replace('<saml:AudienceRestriction>', '<saml:ProxyRestriction Count="many"/><saml:AudienceRestriction>', 1)
    if key is not None:
        ix = build.sign(ix, build.ASSERTION_NODE, inner['id'], key)
    if f == 'content-edit':
        ix = ix.replace('>superuser<', '>root<')
    elif f == 'sigval':
        i = ix.index('SignatureValue>') + 15
        ix = ix[:i] + ('B' if ix[i] != 'B' else 'C') + ix[i + 1:]
    main = dict(a, attributes=[], advice='<saml:EncryptedAssertion>%s</saml:EncryptedAssertion>' % ix)
    main_signed = case['main_signed'] or was
    resp_signed = case['resp_signed'] or wrs or (wors and not main_signed)
    if main_signed:
        main['signature'] = build.sig_template(main['id'], case['alg'], ('x509', world.cert_body(1)))
    rr = dict(r, assertions=[build.assertion_xml(main)])
    if resp_signed:
        rr['signature'] = build.sig_template(rr['id'], case['alg'], ('x509', world.cert_body(1)))
    doc = build.response_xml(rr)
    doc = build.encrypt_assertions(doc, case['enc_key'], xpath=ADVICE_XPATH)
    if main_signed:
        doc = build.sign(doc, build.ASSERTION_NODE, main['id'], 1)
    if resp_signed:
        doc = build.sign(doc, build.RESPONSE_NODE, rr['id'], 1)
    v = spside.deliver(sp, doc)
    bad = f in ('wrong-key', 'content-edit', 'sigval', 'other-issuer-key', 'schema-invalid-signed', 'schema-invalid-unsigned')
    if bad and v[0] == 'accept':
        raise Violation(('invalid' if f.startswith('schema') else 'bad-signature-on') + '-decrypted-advice-accepted', 'advice assertion fault %s (SP options %r, main signed %r, response signed %r): accepted with %r'
                        % (f, (wrs, was, wors), main_signed, resp_signed, spside.identity_of(v[1])))
    if f == 'valid' and v[0] != 'accept':
        raise Violation('valid-encrypted-advice-rejected', 'valid encrypted advice assertion rejected: %s %s' % (v[1], v[2]))
    if f == 'valid' and v[1].ava.get('title') != ['superuser']:
        raise Violation('advice-attributes-lost', 'attributes of the decrypted advice assertion not delivered: %r' % (v[1].ava,))
    return 'advice|%s|%s' % (f, v[0]), True


def reload_cases():
    out = []
    for first in (None, 2, 3):
        for second in (None, 2, 3, 4):
            for warm in (True, False):
                for mode in ('assertion', 'advice'):
                    if first != second:
                        out.append({'first': first, 'second': second, 'warm': warm, 'mode': mode})
    return out


def run_reload(case):
    """one long-lived IdP; the SP's metadata source is re-loaded with another encryption certificate (or none / one for the first time) between two
    responses: each response is protected for the certificate the metadata holds at that moment"""
    import os
    from saml2_tophat import saml
    world.install_inprocess_tool()
    clock.install()
    clock.set_now(NOW)
    path = os.path.join(os.getcwd(), 'sp-md-reload-%d.xml' % os.getpid())

    def write(k):
        keys = [('signing', 0)] + ([('encryption', k)] if k is not None else [])
        with open(path, 'w') as f:
            f.write(build.entity_xml({'entityid': spside.SP, 'sp': {'keys': keys, 'acs': [(world.POST, spside.ACS_POST, 0, True)]}}))
    write(case['first'])
    conf = world.idp_conf(dict(world.DEFAULT_IDP), [])
    conf['metadata'] = {'local': [path]}
    idp = world.make_idp(conf)
    secret = 'Tsecretvalue%s' % ('Q' * 12)

    def answer():
        kw = dict(in_response_to='id-req-1', destination=spside.ACS_POST, sp_entity_id=spside.SP, name_id=saml.NameID(format=saml.NAMEID_FORMAT_PERSISTENT, text='Nsecretsubject0001'),
                  authn={'class_ref': build.PASSWORD, 'authn_auth': 'x'}, sign_response=True)
        if case['mode'] == 'assertion':
            kw['encrypt_assertion'] = True
        else:
            kw.update(encrypted_advice_attributes=True, pefim=True)
        return str(idp.create_authn_response({'givenName': [secret]}, **kw))

    def judge(xml, k, when):
        if k is None:
            return      # nothing to encrypt for: the statement is about SPs that have an encryption certificate
        if secret in xml or not has_encrypted(xml):
            raise Violation('cleartext-leak', '%s: the SP metadata holds encryption key %d, the response carries the attribute value in clear / no EncryptedData' % (when, k))
        cur = xml
        for _ in range(3):
            if not has_encrypted(cur):
                break
            nxt = build.decrypt(cur, k)
            if nxt is None:
                openers = [o for o in range(10) if build.decrypt(cur, o) is not None]
                raise Violation('not-decryptable-by-sp', '%s: the response cannot be opened with the key the metadata holds now (pool %d); keys that open it: %r' % (when, k, openers))
            cur = nxt
        if secret not in cur:
            raise Violation('plaintext-incomplete', '%s: decrypted response lacks the asserted value' % when)
    if case['warm']:
        try:
            judge(answer(), case['first'], 'before the reload')
        except Violation:
            raise
        except Exception:
            pass
    write(case['second'])
    idp.metadata.load('local', path)
    try:
        xml = answer()
    except Exception as e:
        return 'reload|raises', True
    judge(xml, case['second'], 'after the metadata was re-loaded (encryption key %r -> %r%s)' % (case['first'], case['second'], ', one response before' if case['warm'] else ''))
    return 'reload|%s|%s' % (case['mode'], 'warm' if case['warm'] else 'cold'), True


def undecryptable_cases():
    out = []
    for key in (4, 5, 9):
        for opts in range(8):
            for signed in (None, 1):
                out.append({'key': key, 'opts': opts, 'sign_a': signed, 'unsol': opts % 2 == 0})
    return out


def run_undecryptable(case):
    wrs, was, wors = bool(case['opts'] & 1), bool(case['opts'] & 2), bool(case['opts'] & 4)
    sp = spside.sp_for({'want_response_signed': wrs, 'want_assertions_signed': was, 'want_assertions_or_response_signed': wors, 'allow_unsolicited': case['unsol']})
    clock.set_now(NOW)
    r, a = build.standard(NOW)
    doc = build.render(r, [a], sign_response=1, sign_assertions=case['sign_a'], encrypt_for=case['key'])
    v = spside.deliver(sp, doc)
    if v[0] == 'accept':
        idn = spside.identity_of(v[1])
        if idn['name_id'] or idn['ava']:
            raise Violation('identity-from-undecryptable', 'assertion encrypted for pool key %d (not an SP key) yielded %r' % (case['key'], idn))
        return 'accepted-empty', True
    return 'rejected', True


def parts(tier):
    quick = tier != 'thorough'
    return [Part('idp-confidentiality', run_idp, strategy=idp_strategy, examples=400 if quick else 10000),
            Part('sp-equal-validation', run_sp, strategy=sp_strategy, examples=700 if quick else 15000),
            Part('sp-encrypted-advice', run_advice, strategy=advice_strategy, examples=300 if quick else 5000),
            Part('metadata-reload', run_reload, cases=reload_cases, exhaustive=True),
        Part('undecryptable', run_undecryptable, cases=undecryptable_cases, exhaustive=True)]
