"""C20 - failures of the external XML-security tool never turn into acceptance.

The entities run the xmlsec1 stand-in as a real subprocess through tools/bin/xmlsec1-faulty, which follows a per-case
fault plan (fault mode x tool command x invocation position).  The table  mode x site x position  is enumerated in full.
Oracle: differential against the fault-free run and the document's ground truth - a document whose signature is invalid is
never accepted under any fault; a valid one is rejected when every verification is faulted; decryption faults never yield
an identity; sign / encrypt faults raise or leave a document that really is signed / encrypted."""
import json, os, shutil, stat
from harness.runner import Part, Violation, Inconclusive, VERIF
from harness import build, world, clock

PROPERTY = 'C20'
LEVEL = 'fault_enumeration'
RULE = ('fault mode {exit 1 silent / with error text, exit 0 empty, exit 2 usage, truncated "O", OK followed by text on the same line, FAIL (exit 1 / exit 0), garbled bytes (incl. 6 byte strings that collapse to a bare OK line when undecodable bytes are dropped / replaced / stripped), '
        '"NOT OK", OK inside other words, OK set off inside one line by CR / VT / FF / RS / NEL / LINE SEPARATOR (error exit), lower-case ok, SIGKILL / SIGSEGV / SIGTERM before output, signal after doing the work, no output file, empty output file, partial output, '
        'binary not startable} x site {response verify, assertion verify, both (SP requiring both, the response only, nothing), request verify, metadata verify, response sign, assertion sign, request sign, encrypt, decrypt first key, '
        'decrypt second key} x position {first, second, every, every-from-the-second invocation of that command in the operation} x document {valid, signature-corrupted}; enumerated in full, real subprocesses. '
        'Non-trivial = the wrapper log shows the fault hit an invocation; distinct = distinct table row.')
ASSUMPTIONS = ['faults that print a line that is exactly OK *and* exit with status 0 are outside the statement ("without reporting success") and are not in the plan; an error exit status is a failure whatever the diagnostics contain',
               'a valid document may be accepted when only some of several verifications of the same signature are faulted (a later fault-free run verified it); judged rows: '
               'corrupted documents under any plan, valid documents with every invocation faulted',
               'xmlsec1 stand-in run as a real process through the fault-injecting wrapper; frozen clock']

NOW = 1700000000
IDP = 'https://idp.verif.example/idp'
SP = 'https://sp.verif.example/sp'
ACS = 'https://sp.verif.example/acs/post'
VERIFY_MODES = ['error-exit1-echoing-ok-line', 'error-exit2-echoing-ok-line', 'ok-between-cr', 'ok-between-vt', 'ok-between-ff', 'ok-between-rs', 'ok-between-nel', 'ok-between-ls', 'garbled-invalid-utf8-around-ok', 'garbled-invalid-utf8-inside-ok', 'garbled-latin1-nbsp-ok', 'garbled-utf16-ok', 'garbled-nul-ok', 'garbled-invalid-line-then-ok-fragment', 'exit1-silent', 'exit1-error-text', 'exit0-empty', 'exit2-usage', 'truncated-O', 'ok-same-line-junk', 'fail-line', 'fail-exit0', 'garbled', 'not-ok', 'xOKx', 'ok-lowercase',
                'sigkill', 'sigsegv', 'sigterm', 'sigkill-after', 'sigterm-after-partial-ok', 'not-startable']
OUTPUT_MODES = ['exit1-silent', 'exit1-error-text', 'exit0-empty', 'exit2-usage', 'garbled', 'sigkill', 'sigsegv', 'sigterm', 'sigkill-after', 'no-output-file', 'empty-output-exit1', 'not-startable']
DECRYPT_MODES = OUTPUT_MODES + ['partial-output']
_w = {}


def wrapper_path():
    p = os.path.join(os.getcwd(), 'xmlsec1-faulty-%d' % os.getpid())
    if not os.path.exists(p):
        shutil.copy(os.path.join(VERIF, 'tools', 'bin', 'xmlsec1-faulty'), p)
        os.chmod(p, 0o755)
    os.environ['VERIF_XMLSEC_LIB'] = os.path.join(VERIF, 'tools', 'xmlsec')
    return p


def entities():
    if 'sp' not in _w:
        world.uninstall_inprocess_tool()
        wp = wrapper_path()
        idp_md = build.entity_xml({'entityid': IDP, 'idp': {'keys': [('signing', 1)]}})
        sp_md = build.entity_xml({'entityid': SP, 'sp': {'keys': [('signing', 0), ('encryption', 2)], 'acs': [(world.POST, ACS, 0, True)]}})
        for name, opts in (('sp-r', {'want_response_signed': True}), ('sp-a', {'want_response_signed': False, 'want_assertions_signed': True}),
                           ('sp-ra', {'want_response_signed': True, 'want_assertions_signed': True}), ('sp-none', {'want_response_signed': False})):
            conf = world.sp_conf(dict(world.DEFAULT_SP, **opts), [idp_md])
            conf['xmlsec_binary'] = wp
            _w[name] = world.make_sp(conf)
        conf = world.idp_conf(dict(world.DEFAULT_IDP, want_authn_requests_signed=True), [sp_md])
        conf['xmlsec_binary'] = wp
        _w['idp'] = world.make_idp(conf)
        _w['sp'] = _w['sp-r']
        clock.install()
        clock.set_now(NOW)
        # pre-built documents (harness-side signing, no wrapper involved)
        r, a = build.standard(NOW)
        docs = {}
        for shape in ('R', 'A', 'RA'):
            for enc in (None, 2, 3):
                for bad in (False, True):
                    def pa(x, i):
                        return x.replace('SessionIndex="sess-1"', 'SessionIndex="sess-2"', 1) if (bad and 'A' in shape) else x

                    def pr(x):
                        return x.replace('IssueInstant="%s"' % build.ts(NOW), 'IssueInstant="%s"' % build.ts(NOW - 1), 1) if (bad and 'A' not in shape) else x
                    docs[(shape, enc, bad)] = build.render(r, [a], sign_response=1 if 'R' in shape else None, sign_assertions=1 if 'A' in shape else None,
                                                          encrypt_for=enc, post_assertion=pa, post_response=pr)
        # forgeries that carry their own key: signed with a key the metadata does not list (pool 5), the public key announced as ds:KeyValue inside the signature
        for shape in ('R', 'A', 'RA'):
            docs[(shape, None, 'kv')] = build.render(r, [a], sign_response=5 if 'R' in shape else None, sign_assertions=5 if 'A' in shape else None, keyinfo=build.rsa_keyvalue(5))
        docs[('none', 2, False)] = build.render(r, [a], encrypt_for=2)
        docs[('none', 3, False)] = build.render(r, [a], encrypt_for=3)
        _w['docs'] = docs
        q = {'id': 'id-q-1', 'issue_instant': build.ts(NOW), 'destination': 'https://idp.verif.example/sso/post', 'issuer': SP, 'acs_url': ACS, 'protocol_binding': world.POST,
             'name_id_policy': {'format': build.TRANSIENT, 'allow_create': 'true'}, 'signature': build.sig_template('id-q-1', 'sha256')}
        good = build.sign(build.authn_request_xml(q), build.SAMLP + ':AuthnRequest', 'id-q-1', 0)
        _w['req'] = {False: good, True: good.replace('ProtocolBinding="', 'ForceAuthn="true" ProtocolBinding="', 1)}
        sid = 'md-1'
        ents = [{'entityid': 'https://fed-idp.example.org', 'idp': {'keys': [('signing', 4)]}}]
        mdx = build.sign(build.entities_xml(ents, id=sid, signature=build.sig_template(sid, 'sha256')), 'urn:oasis:names:tc:SAML:2.0:metadata:EntitiesDescriptor', sid, 7)
        _w['md'] = {False: mdx, True: mdx.replace('fed-idp.example.org', 'fed-evil.example.org')}
    return _w


class Plan(object):
    def __init__(self, command, positions, mode):
        self.dir = os.getcwd()
        self.path = os.path.join(self.dir, 'plan-%d.json' % os.getpid())
        self.counter = os.path.join(self.dir, 'count-%d' % os.getpid())
        self.log = os.path.join(self.dir, 'log-%d' % os.getpid())
        for p in (self.counter, self.log):
            if os.path.exists(p):
                os.unlink(p)
        self.mode = mode
        with open(self.path, 'w') as f:
            json.dump({'command': command, 'positions': positions, 'mode': mode, 'counter': self.counter, 'log': self.log}, f)

    def __enter__(self):
        os.environ['VERIF_FAULT_PLAN'] = self.path
        if self.mode == 'not-startable':
            os.chmod(wrapper_path(), 0o644)
        return self

    def __exit__(self, *a):
        os.environ.pop('VERIF_FAULT_PLAN', None)
        os.chmod(wrapper_path(), 0o755)

    def hits(self):
        if self.mode == 'not-startable':
            return 1
        try:
            with open(self.log) as f:
                return sum(1 for l in f if not l.rstrip().endswith('delegated'))
        except IOError:
            return 0


def positions(pos):
    return {'first': [1], 'second': [2], 'every': 'all', 'from-second': list(range(2, 40))}[pos]


def rows():
    out = []
    for pos in ('first', 'second', 'every', 'from-second'):
        for mode in VERIFY_MODES:
            for site in ('response-verify', 'assertion-verify', 'both-verify', 'both-verify-nothing-required'):
                out.append({'site': site, 'mode': mode, 'pos': pos, 'bad': 'kv'})
        for bad in (False, True):
            for mode in VERIFY_MODES:
                for site in ('response-verify', 'assertion-verify', 'both-verify', 'both-verify-response-required', 'both-verify-nothing-required', 'request-verify', 'metadata-verify',
                             'encrypted-assertion-verify'):
                    out.append({'site': site, 'mode': mode, 'pos': pos, 'bad': bad})
        for mode in OUTPUT_MODES:
            for site in ('response-sign', 'assertion-sign', 'request-sign', 'encrypt'):
                out.append({'site': site, 'mode': mode, 'pos': pos, 'bad': False})
        for mode in DECRYPT_MODES:
            for site in ('decrypt-first-key', 'decrypt-second-key'):
                out.append({'site': site, 'mode': mode, 'pos': pos, 'bad': False})
            # a decryption fault must not change what happens to the signatures inside the ciphertext: assertion signed (validly / invalidly), encrypted,
            # delivered to an SP that wants signed assertions and to one without requirements
            for sp in ('sp-a', 'sp-none'):
                for bad in (False, True):
                    out.append({'site': 'decrypt-signed-assertion', 'mode': mode, 'pos': pos, 'bad': bad, 'sp': sp})
    return out


def sp_verdict(sp, doc):
    try:
        resp = sp.parse_authn_request_response(build.b64(doc), world.POST, {'id-req-1': '/'})
    except Exception as e:
        return ('reject', type(e).__name__)
    if resp is None:
        return ('reject', 'None')
    nid = resp.name_id.text if resp.name_id is not None else None
    return ('accept', nid, dict(resp.ava or {}))


def run(case):
    from saml2_tophat import samlp, saml
    w = entities()
    clock.set_now(NOW)
    site, mode, pos, bad = case['site'], case['mode'], case['pos'], case['bad']
    label = '%s|%s|%s' % (site, pos, ('forged-own-keyvalue' if bad == 'kv' else 'corrupted') if bad else 'valid')
    if (site.endswith('-verify') or site.startswith('both-verify')) and site not in ('request-verify', 'metadata-verify'):
        shape, sp, enc = {'response-verify': ('R', 'sp-r', None), 'assertion-verify': ('A', 'sp-a', None), 'both-verify': ('RA', 'sp-ra', None),
                          # both signatures present, the SP configuration asks for one / none of them: the other one is still verified, and over several passes
                          'both-verify-response-required': ('RA', 'sp-r', None), 'both-verify-nothing-required': ('RA', 'sp-none', None),
                          'encrypted-assertion-verify': ('A', 'sp-a', 2)}[site]
        doc = w['docs'][(shape, enc, bad)]
        with Plan('--verify', positions(pos), mode) as plan:
            v = sp_verdict(w[sp], doc)
            hits = plan.hits()
        if v[0] == 'accept':
            if bad:
                raise Violation('corrupted-accepted-under-fault', '%s: %s accepted while verification #%s was faulted with %s'
                                % (site, 'a forgery signed with a key outside the metadata (announced as ds:KeyValue)' if bad == 'kv' else 'document with an invalid signature', pos, mode))
            if pos == 'every' and hits:
                raise Violation('accepted-without-successful-verification', '%s: every --verify invocation was faulted with %s (%d hits), yet the response was accepted' % (site, mode, hits))
            if pos == 'from-second' and hits and shape == 'RA':
                raise Violation('accepted-without-successful-verification', '%s: the message carries two signatures, every --verify invocation after the first was faulted with %s (%d hits), '
                                'yet the response was accepted' % (site, mode, hits))
        return label + '|' + v[0], bool(hits)
    if site == 'request-verify':
        enc = build.b64(w['req'][bad])
        with Plan('--verify', positions(pos), mode) as plan:
            try:
                req = w['idp'].parse_authn_request(enc, world.POST)
                ok = req is not None and req.message is not None
            except Exception:
                ok = False
            hits = plan.hits()
        if ok and (bad or (pos == 'every' and hits)):
            raise Violation('request-accepted-under-fault', 'signed request (%s) handed over while verification #%s was faulted with %s' % ('modified' if bad else 'valid', pos, mode))
        return label + '|' + ('handed' if ok else 'refused'), bool(hits)
    if site == 'metadata-verify':
        from saml2_tophat.mdstore import MetadataStore
        from saml2_tophat.attribute_converter import ac_factory
        from saml2_tophat.config import Config

        class Http(object):
            def send(self, url, **kw):
                class R(object):
                    status_code = 200
                R.content = R.text = w['md'][bad]
                return R()
        conf = Config()
        conf.xmlsec_binary = wrapper_path()
        mds = MetadataStore(ac_factory(), conf)
        mds.http = Http()
        with Plan('--verify', positions(pos), mode) as plan:
            try:
                mds.load('remote', url='https://md.example.org/feed', cert=world.crt(7))
            except Exception:
                pass
            hits = plan.hits()
        served = list(mds.keys())
        if served and (bad or (pos == 'every' and hits)):
            raise Violation('metadata-served-under-fault', 'signed metadata (%s) contributes %r although its verification was faulted with %s' % ('tampered' if bad else 'valid', served, mode))
        return label + '|' + ('served' if served else 'not-served'), bool(hits)
    if site in ('response-sign', 'assertion-sign', 'encrypt'):
        kw = dict(in_response_to='id-req-1', destination=ACS, sp_entity_id=SP, name_id=saml.NameID(format=saml.NAMEID_FORMAT_TRANSIENT, text='Nsecretsubject0001'),
                  authn={'class_ref': build.PASSWORD, 'authn_auth': 'x'}, sign_response=site == 'response-sign', sign_assertion=site == 'assertion-sign',
                  encrypt_assertion=site == 'encrypt')
        cmd = '--encrypt' if site == 'encrypt' else '--sign'
        with Plan(cmd, positions(pos), mode) as plan:
            try:
                xml = str(w['idp'].create_authn_response({'givenName': ['Tsecretvalue0001']}, **kw))
            except Exception as e:
                xml = None
            hits = plan.hits()
        if xml is None:
            return label + '|raised', bool(hits)
        if not hits:
            return label + '|fault-not-reached', False
        if site == 'encrypt':
            if 'Tsecretvalue0001' in xml or 'Nsecretsubject0001' in xml:
                raise Violation('unencrypted-returned', 'encryption was requested, the tool run was faulted with %s (#%s) and the response was returned with the assertion in clear' % (mode, pos))
            if 'EncryptedData' not in xml:
                raise Violation('unencrypted-returned', 'no EncryptedData in the returned response (mode %s)' % mode)
            return label + '|returned-encrypted', True
        node, nid = (build.RESPONSE_NODE, None) if site == 'response-sign' else (build.ASSERTION_NODE, None)
        import re
        m = re.search(r'<(?:\w+:)?%s [^>]*ID="([^"]+)"' % ('Response' if site == 'response-sign' else 'Assertion'), xml)
        if not m or not build.verify(build.strip_decl(xml), node, m.group(1), 1):
            raise Violation('unsigned-returned', '%s: signing was requested, the tool run was faulted with %s (#%s) and a document without a valid signature was returned' % (site, mode, pos))
        return label + '|returned-signed', True
    if site == 'request-sign':
        with Plan('--sign', positions(pos), mode) as plan:
            try:
                rid, req = w['sp'].create_authn_request('https://idp.verif.example/sso', sign=True)
                xml = str(req)
            except Exception:
                xml = None
            hits = plan.hits()
        if xml is None:
            return label + '|raised', bool(hits)
        if not hits:
            return label + '|fault-not-reached', False
        if not build.verify(build.strip_decl(xml), build.SAMLP + ':AuthnRequest', rid, 0):
            raise Violation('unsigned-returned', 'request-sign: faulted with %s (#%s) and an AuthnRequest without a valid signature was returned' % (mode, pos))
        return label + '|returned-signed', True
    if site == 'decrypt-signed-assertion':
        doc = w['docs'][('A', 2, bad)]
        with Plan('--decrypt', positions(pos), mode) as plan:
            v = sp_verdict(w[case['sp']], doc)
            hits = plan.hits()
        if v[0] == 'accept' and bad and (v[1] or v[2]):
            raise Violation('corrupted-accepted-under-fault', 'decrypt-signed-assertion (%s): an encrypted assertion whose own signature is invalid yields identity %r when --decrypt #%s is faulted with %s'
                            % (case['sp'], v[1:], pos, mode))
        return label + '|' + case['sp'] + '|' + v[0], bool(hits)
    if site in ('decrypt-first-key', 'decrypt-second-key'):
        doc = w['docs'][('none', 2 if site == 'decrypt-first-key' else 3, False)]
        with Plan('--decrypt', positions(pos), mode) as plan:
            v = sp_verdict(w['sp-none'], doc)
            hits = plan.hits()
        if v[0] == 'accept' and (v[1] or v[2]):
            # an identity is fine only if some decryption ran fault-free
            if pos == 'every' and hits:
                raise Violation('identity-from-failed-decryption', '%s: every --decrypt invocation was faulted with %s, identity %r' % (site, mode, v[1:]))
            if v[1] != 'subject-0001':
                raise Violation('identity-from-failed-decryption', '%s: identity %r does not come from the encrypted assertion' % (site, v[1:]))
        return label + '|' + v[0], bool(hits)
    raise ValueError(site)


def parts(tier):
    return [Part('faults', run, cases=rows, exhaustive=True, max_shards=16)]
