"""C12 - schema element objects survive serialise/parse without loss.

Every SamlBase class of the schema modules is exercised with deterministic full instances (enumerated) and
with Hypothesis-generated instance trees; oracles: structural round trip through the harness's own
projection, byte stability of the second serialisation, intent (plain ElementTree sees every generated
attribute / child under its declared name, children in sequence order) and survival of injected foreign
children / attributes."""
from harness.runner import Part, Violation
from harness import schema_gen as G

PROPERTY = 'C12'
LEVEL = 'exploration'
RULE = ('every-class: all SamlBase subclasses with a tag in the schema modules x deterministic full instances (variants 0-1, depth 1-2) '
        'x foreign content injected at the root and at the first nested element (exhaustive over classes); generated: class drawn '
        'uniformly, Hypothesis instance tree (each attribute set/unset with XML-Char text, children 0..3, depth <= 3/4, text on simple-content '
        'classes) x generated injection point. Non-trivial = instance has at least one child or foreign content; distinct = distinct spec.')
ASSUMPTIONS = ['stdlib ElementTree is the independent reader for the intent and foreign-content oracles',
               'text compared with "" == None (an empty element has no text node); CR excluded from text nodes (XML line-end normalisation)',
               'ground truth is the generated tables themselves (no XSDs in the repository)']

FOREIGN = 'urn:verif:foreign'


def norm(x):
    from saml2_tophat import SamlBase, ExtensionElement
    if isinstance(x, SamlBase):
        d = {'__cls__': G.cname(type(x))}
        for xn, member, typ, req in G.attrs_of(type(x)):
            v = getattr(x, member, None)
            if v is not None:
                d['@' + member] = v
        for tag, member, ccls, is_list in G.children_of(type(x)):
            v = getattr(x, member, None)
            if v:
                d[member] = [norm(i) for i in v] if isinstance(v, list) else [norm(v)]
        if x.text:
            d['#text'] = x.text
        if x.extension_elements:
            d['ext'] = [norm(e) for e in x.extension_elements]
        if x.extension_attributes:
            d['exta'] = dict(x.extension_attributes)
        return d
    if isinstance(x, ExtensionElement):
        return {'tag': x.tag, 'ns': x.namespace, 'attrs': dict(x.attributes), 'children': [norm(c) for c in x.children], 'text': x.text or None}
    return x


def expected_shape(spec):
    """what plain ElementTree must see for a generated spec: (tag, attrs, text, [children])"""
    cls = G.classes()[spec['cls']]
    attrs = {}
    by_member = dict((m, xn) for xn, m, t, r in G.attrs_of(cls))
    for member, v in spec['attrs'].items():
        attrs[by_member[member]] = v
    order = list(cls.c_child_order) if cls.c_child_order else [m for t, m, c, il in G.children_of(cls)]
    kids = []
    seen = set()
    for member in order:
        if member in seen:
            continue
        seen.add(member)
        for c in spec['children'].get(member, []):
            kids.append(expected_shape(c))
    missing = [m for m in spec['children'] if m not in seen and spec['children'][m]]
    return ('{%s}%s' % (cls.c_namespace, cls.c_tag), attrs, spec.get('text') or None, kids, missing)


def check_shape(el, exp, path):
    tag, attrs, text, kids, missing = exp
    if missing:
        raise Violation('child-not-in-order-table', '%s: members %r are in c_children but not in c_child_order' % (path, missing))
    if el.tag != tag:
        raise Violation('wrong-tag', '%s: serialised as %r, declared %r' % (path, el.tag, tag))
    for k, v in attrs.items():
        if el.get(k) != v:
            raise Violation('attribute-lost', '%s: attribute %r is %r, set %r' % (path, k, el.get(k), v))
    # attributes the library adds by itself (defaults such as NameFormat, xsi:type of typed values) are not judged
    if (el.text or None) != text:
        raise Violation('text-lost', '%s: text %r, set %r' % (path, el.text, text))
    got = [c.tag for c in el]
    want = [k[0] for k in kids]
    if got != want:
        raise Violation('children-order', '%s: children %r, expected schema order %r' % (path, got, want))
    for i, (c, k) in enumerate(zip(el, kids)):
        check_shape(c, k, path + '/' + k[0].split('}')[1] + '[%d]' % i)


def _et_shape(e):
    return (e.tag, tuple(sorted(e.attrib.items())), e.text or None, tuple(_et_shape(c) for c in e))


NSPAIR = {'saml': 'urn:oasis:names:tc:SAML:2.0:assertion', 'samlp': 'urn:oasis:names:tc:SAML:2.0:protocol', 'md': 'urn:oasis:names:tc:SAML:2.0:metadata',
          'ds': 'http://www.w3.org/2000/09/xmldsig#', 'xenc': 'http://www.w3.org/2001/04/xmlenc#', 'xsi': 'http://www.w3.org/2001/XMLSchema-instance',
          'xs': 'http://www.w3.org/2001/XMLSchema', 'vf': FOREIGN}


def _foreign_last(t):
    """shape with, at every level, the children of the foreign / no namespace moved behind the others (relative orders kept): no serialiser keeps the position of
    unknown children among the known ones, so routes are compared up to that"""
    kids = [_foreign_last(c) for c in t[3]]
    f = [c for c in kids if c[0].startswith('{%s}' % FOREIGN) or not c[0].startswith('{')]
    k = [c for c in kids if c not in f]
    return (t[0], t[1], t[2], tuple(k + f))


def _state(v, depth=0):
    """plain-data picture of an instance (attributes, text, children, extension content), for before / after comparisons"""
    from saml2_tophat import SamlBase, ExtensionElement
    if depth > 40:
        return '...'
    if isinstance(v, (SamlBase, ExtensionElement)):
        return (type(v).__name__, tuple((k, _state(x, depth + 1)) for k, x in sorted(v.__dict__.items())))
    if isinstance(v, dict):
        return tuple(sorted((str(k), _state(x, depth + 1)) for k, x in v.items()))
    if isinstance(v, (list, tuple)):
        return tuple(_state(x, depth + 1) for x in v)
    return v if isinstance(v, (str, bytes, int, float, bool, type(None))) else repr(v)


def alternative_serialisers(obj, s, clsname, foreign=False):
    """the other public routes from an object to XML must describe the same element as to_string(): conversion into extension content
    (element_to_extension_element, used for SOAP bodies, Extensions and encrypted assertions), to_string(nspair) and to_string_force_namespace(nspair)"""
    from xml.etree import ElementTree as ET
    from saml2_tophat import element_to_extension_element
    norm = _foreign_last if foreign else (lambda t: t)
    base = norm(_et_shape(ET.fromstring(s)))
    state0 = _state(obj)
    routes = [('element_to_extension_element', lambda: element_to_extension_element(obj).to_string()),
              ('to_string(nspair)', lambda: obj.to_string(dict(NSPAIR))),
              ('to_string_force_namespace', lambda: obj.to_string_force_namespace(dict(NSPAIR))),
              # prefixes of the form ns<digits> are what ElementTree hands out itself; a caller may still ask for them (nsprefix option of the request builders)
              ('to_string(ns-numbered nspair)', lambda: obj.to_string({'ns0': NSPAIR['samlp'], 'ns1': NSPAIR['saml'], 'ns2': NSPAIR['md']}))]
    for name, f in routes:
        try:
            alt = f()
        except Exception as e:
            raise Violation('alternative-serialiser-raises', '%s: %s raised %r' % (clsname, name, e), detail={'route': name})
        try:
            shape = norm(_et_shape(ET.fromstring(alt)))
        except ET.ParseError as e:
            raise Violation('alternative-serialisation-not-well-formed', '%s: %s produced text that does not parse (%s): %r' % (clsname, name, e, alt[:300]), detail={'route': name})
        if shape != base:
            raise Violation('alternative-serialisation-differs', '%s: %s describes another element than to_string(): %s' % (clsname, name, _first_diff(_listify(base), _listify(shape))),
                            detail={'route': name})
        if _state(obj) != state0:
            raise Violation('serialiser-changes-instance', '%s: %s changed the instance it serialised (attributes / text / children of the object differ from before the call)'
                            % (clsname, name), detail={'route': name})
        # producing text does not change the instance: its ordinary serialisation still describes the same element (the text may differ in prefix names: the
        # namespace-pair serialisers register their prefixes with ElementTree process-wide)
        try:
            again = obj.to_string()
        except Exception as e:
            raise Violation('serialiser-changes-instance', '%s: after %s, to_string() raises %r' % (clsname, name, e), detail={'route': name})
        try:
            shape2 = norm(_et_shape(ET.fromstring(again)))
        except ET.ParseError as e:
            raise Violation('serialiser-changes-instance', '%s: after %s the instance no longer serialises to well-formed text (%s): %r' % (clsname, name, e, again[:300]), detail={'route': name})
        if shape2 != base:
            raise Violation('serialiser-changes-instance', '%s: after %s the instance describes another element: %s' % (clsname, name, _first_diff(_listify(base), _listify(shape2))),
                            detail={'route': name})


def _listify(t):
    return [t[0], dict(t[1]), t[2], [_listify(c) for c in t[3]]]


def roundtrip(spec, inject=None):
    from xml.etree import ElementTree as ET
    from saml2_tophat import create_class_from_xml_string
    cls = G.classes()[spec['cls']]
    try:
        obj = G.build(spec)
        s = obj.to_string()
    except Exception as e:
        raise Violation('serialise-raises', '%s: to_string raised %r' % (spec['cls'], e))
    try:
        back = create_class_from_xml_string(cls, s)
    except Exception as e:
        raise Violation('parse-raises', '%s: parsing its own serialisation raised %r' % (spec['cls'], e))
    if back is None or type(back) is not cls:
        raise Violation('parse-wrong-type', '%s: parse returned %r' % (spec['cls'], type(back).__name__))
    a, b = norm(obj), norm(back)
    if a != b:
        raise Violation('structure-differs', '%s: %s' % (spec['cls'], _first_diff(a, b)))
    s2 = back.to_string()
    if s2 != s:
        raise Violation('second-serialisation-differs', '%s: %r vs %r' % (spec['cls'], s[:200], s2[:200]))
    alternative_serialisers(back, s, spec['cls'])
    # two parses of the same text are independent objects: changing something nested in the first result must not show in a later parse
    first = create_class_from_xml_string(cls, s)
    first.extension_attributes['{%s}touched' % FOREIGN] = 'yes'
    for tag, member, ccls, is_list in G.children_of(cls):
        v = getattr(first, member, None)
        for child in (v if isinstance(v, list) else [v] if v is not None else []):
            child.extension_attributes['{%s}touched' % FOREIGN] = 'yes'
            child.text = 'touched'
        if isinstance(v, list) and v:
            v.append(v[0])
    again = create_class_from_xml_string(cls, s)
    if norm(again) != a:
        raise Violation('parse-results-share-state', '%s: after a nested change to an earlier parse result, parsing the same text again gives %s' % (spec['cls'], _first_diff(a, norm(again))))
    root = ET.fromstring(s)
    check_shape(root, expected_shape(spec), spec['cls'].split(':')[1])
    published_order(root, spec)
    nt = bool(spec['children'])
    if inject is not None:
        foreign_content(spec, s, inject)
        nt = True
    return nt


def published_order(el, spec):
    """core classes: emitted children follow the sequence of the published XSD (hand transcription)."""
    from harness.models import schema_order
    r = schema_order.ranks(spec['cls'])
    if r:
        seq = [(r[c.tag], c.tag) for c in el if c.tag in r]
        if [x[0] for x in seq] != sorted(x[0] for x in seq):
            raise Violation('published-sequence-order', '%s: children emitted as %r, XSD sequence is %r'
                            % (spec['cls'], [t.split('}')[1] for _, t in seq], schema_order.ORDER[spec['cls']]))
    cls = G.classes()[spec['cls']]
    order = list(cls.c_child_order) or [m for t, m, c, il in G.children_of(cls)]
    kids = []
    seen = set()
    for m in order:
        if m not in seen:
            seen.add(m)
            kids.extend(spec['children'].get(m, []))
    for c, cs in zip(list(el), kids):
        published_order(c, cs)


def _first_diff(a, b, path=''):
    if type(a) != type(b):
        return '%s: %r vs %r' % (path, a, b)
    if isinstance(a, dict):
        for k in sorted(set(a) | set(b)):
            if a.get(k) != b.get(k):
                return _first_diff(a.get(k), b.get(k), path + '/' + str(k))
    if isinstance(a, list):
        if len(a) != len(b):
            return '%s: %d vs %d items' % (path, len(a), len(b))
        for i, (x, y) in enumerate(zip(a, b)):
            if x != y:
                return _first_diff(x, y, path + '[%d]' % i)
    return '%s: %r vs %r' % (path, a, b)


def foreign_content(spec, s, inject):
    """inject foreign attribute / children into the serialised text at element number `inject` (document order),
    parse with the library, serialise, and look for them with plain ElementTree."""
    from xml.etree import ElementTree as ET
    from saml2_tophat import create_class_from_xml_string
    cls = G.classes()[spec['cls']]
    root = ET.fromstring(s)
    # only elements that correspond to generated (known) classes
    known = []

    def walk(el, sp):
        known.append((el, sp))
        exp = expected_shape(sp)
        order = list(G.classes()[sp['cls']].c_child_order) or [m for t, m, c, il in G.children_of(G.classes()[sp['cls']])]
        seq = []
        seen = set()
        for m in order:
            if m in seen:
                continue
            seen.add(m)
            seq.extend(sp['children'].get(m, []))
        for c, cs in zip(list(el), seq):
            walk(c, cs)
    walk(root, spec)
    target, tspec = known[inject % len(known)]
    tcls = G.classes()[tspec['cls']]
    target.set('{%s}fattr' % FOREIGN, 'v&"<\'>')
    f = ET.SubElement(target, '{%s}child' % FOREIGN)
    f.text = 'foreign <text> & more'
    f.set('k', 'v')
    f.set('{%s}level' % FOREIGN, '3')       # a namespace-qualified attribute on foreign content
    inner = ET.SubElement(f, '{%s}inner' % FOREIGN)
    inner.text = u'deep \xe9'
    ET.SubElement(ET.SubElement(inner, '{%s}deeper' % FOREIGN), 'deepest').set('a', 'b')
    # XML names may contain '-', '.', the middle dot and non-ASCII letters
    for nm in (u'assurance-level', u'idp.policy', u'a\xb7b', u'\xe9l\xe9ment', u'contact-type', u'contact-mail', u'_x'):
        ET.SubElement(f, u'{%s}%s' % (FOREIGN, nm)).set(u'data-x.y', nm)
    g = ET.SubElement(target, 'nonamespace')
    g.text = 'q'
    same_local = None
    kids = G.children_of(tcls)
    if kids:
        same_local = '{%s}%s' % (FOREIGN, kids[0][0].split('}')[-1])
        ET.SubElement(target, same_local).text = 'evil'
    n_before = len(list(target)) - (3 if same_local else 2)
    known_tags = [c.tag for c in list(target)[:n_before]]
    text = ET.tostring(root, encoding='UTF-8')
    try:
        obj = create_class_from_xml_string(cls, text)
        out = obj.to_string()
    except Exception as e:
        raise Violation('foreign-raises', '%s: document with foreign content under %s raised %r' % (spec['cls'], tspec['cls'], e))
    # the other serialisers on the instance that carries the foreign content (and the instance afterwards)
    alternative_serialisers(obj, out, spec['cls'], foreign=True)
    root2 = ET.fromstring(out)
    # locate the same element again by walking the same index path
    path = _index_path(root, target)
    t2 = root2
    for tag, nth in path:
        same = [c for c in t2 if c.tag == tag]
        if nth >= len(same):
            raise Violation('foreign-displaces-known', '%s: known child %s[%d] missing after re-serialisation' % (spec['cls'], tag, nth))
        t2 = same[nth]
    if t2.get('{%s}fattr' % FOREIGN) != 'v&"<\'>':
        raise Violation('foreign-attribute-dropped', '%s: foreign attribute on %s came back as %r' % (spec['cls'], tspec['cls'], t2.get('{%s}fattr' % FOREIGN)))
    fc = t2.find('{%s}child' % FOREIGN)
    if fc is None or _et_shape(fc) != _et_shape(f):
        raise Violation('foreign-child-dropped', '%s: foreign child under %s came back as %r' % (spec['cls'], tspec['cls'], None if fc is None else ET.tostring(fc)))
    ns = t2.find('nonamespace')
    if ns is None or ns.text != 'q':
        raise Violation('unqualified-child-dropped', '%s: un-namespaced child under %s lost' % (spec['cls'], tspec['cls']))
    if same_local is not None:
        sl = t2.find(same_local)
        if sl is None or sl.text != 'evil':
            raise Violation('same-local-name-child-dropped', '%s: foreign-namespace %s under %s lost' % (spec['cls'], same_local, tspec['cls']))
    known2 = [c.tag for c in t2 if c.tag in set(known_tags)]
    if known2 != known_tags:
        raise Violation('foreign-changes-known', '%s: known children %r became %r' % (spec['cls'], known_tags, known2))


def _index_path(root, target):
    """[(tag, index among same-tag siblings)] from root to target"""
    def rec(el, acc):
        if el is target:
            return acc
        counts = {}
        for c in el:
            n = counts.get(c.tag, 0)
            counts[c.tag] = n + 1
            r = rec(c, acc + [(c.tag, n)])
            if r is not None:
                return r
        return None
    return rec(root, [])


def declared_but_unusable(clsname):
    """children declared in the table whose class slot cannot be instantiated: a document that carries that
    child must still parse and keep the content."""
    from xml.etree import ElementTree as ET
    from saml2_tophat import create_class_from_xml_string
    cls = G.classes()[clsname]
    for tag, member, ccls, is_list in G.children_of(cls):
        if G.usable_child(ccls):
            continue
        root = ET.Element('{%s}%s' % (cls.c_namespace, cls.c_tag))
        c = ET.SubElement(root, tag)
        c.set('Id', 'x1')
        ET.SubElement(c, '{%s}inner' % FOREIGN).text = 't'
        try:
            obj = create_class_from_xml_string(cls, ET.tostring(root))
            out = ET.fromstring(obj.to_string())
        except Exception as e:
            raise Violation('declared-child-unparseable', '%s: a document with its declared child %s raised %r' % (clsname, tag, e))
        got = out.find(tag)
        if got is None or _et_shape(got) != _et_shape(c):
            raise Violation('declared-child-dropped', '%s: declared child %s lost' % (clsname, tag))


def run_every(case):
    if case['variant'] == -2:   # every declared attribute and the text set to the empty string
        cls = G.classes()[case['cls']]
        spec = {'cls': case['cls'], 'attrs': dict((m, '') for xn, m, t, r in G.attrs_of(cls)), 'children': {}, 'text': '' if getattr(cls, 'c_value_type', None) or not G.children_of(cls) else None}
        roundtrip(spec, inject=None)
        return 'empty-strings', True
    if case['variant'] == -3:   # text made of white space only (ASCII and other blanks): text all the same
        cls = G.classes()[case['cls']]
        for blank in BLANKS:
            roundtrip({'cls': case['cls'], 'attrs': {}, 'children': {}, 'text': blank}, inject=None)
        return 'blank-text', True
    if case['variant'] < 0:     # bare instance: nothing set at all
        roundtrip({'cls': case['cls'], 'attrs': {}, 'children': {}, 'text': None}, inject=0)
        return 'bare', True
    spec = G.full_spec(case['cls'], case['depth'], case['variant'])
    roundtrip(spec, inject=case['inject'])
    if case['variant'] == 0 and case['depth'] == 1:
        declared_but_unusable(case['cls'])
    return 'full|d%d' % case['depth'], True


BLANKS = [u' ', u'\t', u'  \n ', u'\u00a0', u'\u3000', u'\u2003 ']


def every_cases():
    out = []
    for cn in sorted(G.classes()):
        out.append({'cls': cn, 'depth': 0, 'variant': -1, 'inject': 0})
        out.append({'cls': cn, 'depth': 0, 'variant': -2, 'inject': 0})
        cls = G.classes()[cn]
        if not G.children_of(cls) and not getattr(cls, 'c_value_type', None) or cn.endswith(':AttributeValue'):
            # leaf classes whose text is not of a checked type: any text is content
            out.append({'cls': cn, 'depth': 0, 'variant': -3, 'inject': 0})
        for depth in (1, 2):
            for variant in (0, 1):
                out.append({'cls': cn, 'depth': depth, 'variant': variant, 'inject': variant})
    return out


def text_strategy(attr=False):
    from hypothesis import strategies as st
    bad = u'\r' if not attr else u''
    hot = st.sampled_from(list(u'<>&"\' \n\t]') + [u']]>', u'&amp;', u'&#x41;', u'<a>', u'\xe9', u'€', u'\U0001F600', u' lead', u'trail '])
    chars = st.characters(codec='utf-8', exclude_categories=('Cs', 'Cc'), exclude_characters=u'￾￿' + bad)
    return st.one_of(st.text(alphabet=chars, min_size=1, max_size=12), st.lists(st.one_of(hot, st.text(alphabet=chars, max_size=3)), min_size=1, max_size=5).map(u''.join))


def generated_strategy(depth):
    from hypothesis import strategies as st
    names = sorted(G.classes())
    return st.sampled_from(names).flatmap(
        lambda cn: st.fixed_dictionaries({'spec': G.instance_strategy(cn, depth, text_strategy(), text_strategy(attr=True)),
                                          'inject': st.one_of(st.none(), st.integers(0, 6))}))


def run_generated(case):
    spec = case['spec']
    nt = roundtrip(spec, inject=case['inject'])
    size = G.spec_size(spec)
    return ('tree' if spec['children'] else 'leaf') + ('|foreign' if case['inject'] is not None else ''), nt


def parts(tier):
    quick = tier != 'thorough'
    return [
        Part('every-class', run_every, cases=every_cases, exhaustive=True),
        Part('generated', run_generated, strategy=lambda: generated_strategy(3 if quick else 4), examples=12000 if quick else 400000,
             mandatory=['tree|foreign', 'tree']),
    ]


def _has_empty_attribute_value(spec):
    from saml2_tophat.saml import AttributeValueBase
    cls = G.classes().get(spec['cls'])
    if cls is not None and issubclass(cls, AttributeValueBase) and spec.get('text') == '':
        return True
    return any(_has_empty_attribute_value(c) for lst in spec.get('children', {}).values() for c in lst)


def known_match(part, case, v):
    if v.bucket in ('structure-differs', 'second-serialisation-differs'):
        if part == 'generated':
            spec = case['spec']
        elif case.get('variant') == -2:
            cls = G.classes()[case['cls']]
            spec = {'cls': case['cls'], 'text': '' if getattr(cls, 'c_value_type', None) or not G.children_of(cls) else None, 'children': {}}
        else:
            return None
        if _has_empty_attribute_value(spec):
            return 'C12-empty-string-attributevalue-becomes-nil'
    return None
