"""C06 - only successful SAML 2.0 responses ever yield an identity.

The status x sub-status x message x assertion table and the Version table are enumerated in full for responses
(SP side) and requests (IdP side); documents are rendered and signed by the harness."""
from harness.runner import Part, Violation
from harness import build, spside, clock, world

PROPERTY = 'C06'
LEVEL = 'exploration'
RULE = ('status table: top-level {Success, Requester, Responder, VersionMismatch, unknown URI, Status absent} x second-level {absent, 19 standard codes, '
        'VersionMismatch/Responder as sub-code, unknown URI} x StatusMessage present/absent x {no assertion, valid signed assertion} x {response signed, unsigned with '
        'signed assertion} x {fresh SP object, SP object that has just handled a LogoutResponse} x entry point {parse_authn_request_response, parse_attribute_query_response over SOAP}; version table: Version in {1.0,1.1,2.0,2.1,3.0,"","two","2.0 "} x status {Success, Requester} x assertion, and the same Version list for '
        'AuthnRequest and LogoutRequest on the IdP side (Redirect/POST/SOAP encodings); enumerated in full. Non-trivial = not the plain Success/2.0 row; '
        'distinct = distinct row.')
ASSUMPTIONS = ['xmlsec1 stand-in for the signatures; frozen clock; documents otherwise valid so the status check is reached',
               'class-name rule for standard second-level codes: exception class name == "Status" + last URI segment, case-insensitively']

S = 'urn:oasis:names:tc:SAML:2.0:status:'
TOP = ['Success', 'Requester', 'Responder', 'VersionMismatch', 'urn:verif:unknown-status', None,
       # unknown codes that end like the success code / contain it
       'urn:verif:status:Success', 'urn:oasis:names:tc:SAML:2.0:status:Responder:Success', 'urn:oasis:names:tc:SAML:2.0:status:success', 'urn:oasis:names:tc:SAML:2.0:status:Success ']
STANDARD_SUB = ['AuthnFailed', 'InvalidAttrNameOrValue', 'InvalidNameIDPolicy', 'NoAuthnContext', 'NoAvailableIDP', 'NoPassive', 'NoSupportedIDP', 'PartialLogout',
                'ProxyCountExceeded', 'RequestDenied', 'RequestUnsupported', 'RequestVersionDeprecated', 'RequestVersionTooHigh', 'RequestVersionTooLow',
                'ResourceNotRecognized', 'TooManyResponses', 'UnknownAttrProfile', 'UnknownPrincipal', 'UnsupportedBinding']
OTHER_SUB = ['VersionMismatch', 'Responder', 'urn:verif:unknown-sub']
VERSIONS = ['1.0', '1.1', '2.0', '2.1', '3.0', '', 'two', '2.0 ',
            # fragments and look-alikes of the one supported value
            '2', '2.', '.0', '0', '02.0', '2.00', '2,0']


def _uri(x):
    return x if x is None or x.startswith('urn:') else S + x


def status_rows():
    out = []
    for top in TOP:
        for sub in [None] + STANDARD_SUB + OTHER_SUB:
            for msg in (None, 'something went wrong'):
                for assertion in (False, True):
                    for rsigned in (True, False):
                        if top is None and (sub or msg):
                            continue
                        out.append({'kind': 'status', 'top': top, 'sub': sub, 'msg': msg, 'assertion': assertion, 'rsigned': rsigned, 'version': '2.0'})
                        if assertion and msg is None:
                            # the same row on an SP object that has just handled a (successful) LogoutResponse, and through the attribute-query answer entry point
                            out.append({'kind': 'status', 'top': top, 'sub': sub, 'msg': msg, 'assertion': assertion, 'rsigned': rsigned, 'version': '2.0', 'history': 'logout-response-first'})
                            if rsigned:
                                out.append({'kind': 'status', 'top': top, 'sub': sub, 'msg': msg, 'assertion': assertion, 'rsigned': False, 'version': '2.0', 'entry': 'attrq'})
    # two Status elements: whichever a reader picks, a response that carries a non-Success Status must not yield an identity
    for first, second in (('Responder', 'Success'), ('Success', 'Responder'), ('Requester', 'Success')):
        for rsigned in (True, False):
            out.append({'kind': 'status', 'top': first, 'sub': None, 'msg': None, 'assertion': True, 'rsigned': rsigned, 'version': '2.0', 'second_status': second})
    # an attribute of the same local name qualified with the element's own namespace next to the declared (unqualified) one: the declared one counts
    for rsigned in (True, False):
        out.append({'kind': 'status', 'top': 'Responder', 'sub': None, 'msg': None, 'assertion': True, 'rsigned': rsigned, 'version': '2.0', 'qualified': 'status-success'})
        out.append({'kind': 'version', 'top': 'Success', 'sub': None, 'msg': None, 'assertion': True, 'rsigned': rsigned, 'version': '1.1', 'qualified': 'version-2.0'})
    for v in VERSIONS:
        for top in ('Success', 'Requester'):
            for assertion in (False, True):
                out.append({'kind': 'version', 'top': top, 'sub': None, 'msg': None, 'assertion': assertion, 'rsigned': True, 'version': v})
    return out


LOGOUT_RESPONSE = ('<samlp:LogoutResponse xmlns:samlp="urn:oasis:names:tc:SAML:2.0:protocol" xmlns:saml="urn:oasis:names:tc:SAML:2.0:assertion" ID="id-lr-1" Version="2.0" '
                   'IssueInstant="%s" InResponseTo="id-lq-1"><saml:Issuer>%s</saml:Issuer><samlp:Status><samlp:StatusCode Value="urn:oasis:names:tc:SAML:2.0:status:Success"/>'
                   '</samlp:Status></samlp:LogoutResponse>')


def run_response(case):
    now = spside.NOW
    attrq = case.get('entry') == 'attrq'
    if attrq:
        sp = spside.sp_for({'want_response_signed': False, 'want_assertions_signed': False, 'want_assertions_or_response_signed': False})
    else:
        sp = spside.sp_for({'want_response_signed': case['rsigned'], 'want_assertions_signed': not case['rsigned']})
    clock.set_now(now)
    if case.get('history') == 'logout-response-first':
        try:
            sp.parse_logout_request_response(build.soap_envelope(LOGOUT_RESPONSE % (build.ts(now), spside.IDP)), world.SOAP)
        except Exception:
            pass
    r, a = build.standard(now)
    r['version'] = case['version']
    if case['top'] is None:
        r['status'] = None
    else:
        r['status'] = {'code': _uri(case['top']), 'sub': _uri(case['sub']), 'message': case['msg']}
    alist = [a] if case['assertion'] else []
    if case.get('second_status'):
        r['trailing_status'] = {'code': _uri(case['second_status'])}
    if case.get('qualified') == 'status-success' and r.get('status'):
        r['status']['code_extra_attrs'] = ' samlp:Value="%sSuccess"' % S
    if case.get('qualified') == 'version-2.0':
        r['extra_attrs'] = ' samlp:Version="2.0"'
    if attrq:
        a['authn'] = []
        r['destination'] = None
        v = spside.deliver_attr(sp, build.render(r, alist))
    else:
        doc = build.render(r, alist, sign_response=1 if case['rsigned'] else None, sign_assertions=1)
        v = spside.deliver(sp, doc)
    ok_status = case['top'] == 'Success' and case.get('second_status') in (None, 'Success')
    ok_version = case['version'] == '2.0'
    if v[0] == 'accept':
        if not ok_status or not ok_version:
            raise Violation('non-success-accepted', 'status %r/%r version %r assertion=%r: accepted with identity %r'
                            % (case['top'], case['sub'], case['version'], case['assertion'], spside.identity_of(v[1])))
        if not case['assertion']:
            raise Violation('accepted-without-assertion', 'Success response without assertion accepted')
        return 'accept', case['sub'] is not None or case['msg'] is not None
    # rejected
    if case.get('second_status'):
        return 'reject|two-status-elements', True
    if ok_status and ok_version and case['assertion']:
        raise Violation('success-rejected', 'Success/2.0 response with a valid signed assertion rejected: %s %s' % (v[1], v[2]))
    if ok_version and not ok_status and case['top'] is not None:
        exc = v[1]
        if case['sub'] in STANDARD_SUB:
            if exc.lower() != ('status' + case['sub']).lower():
                raise Violation('wrong-status-error-class', 'sub-status %s gave %s (%s), documented class is Status%s' % (case['sub'], exc, v[2], case['sub']))
            return 'reject|specific-class', True
        if case['sub'] is None:
            if exc != 'StatusError':
                raise Violation('wrong-generic-status-error', 'status %s without sub-status gave %s (%s), expected StatusError' % (case['top'], exc, v[2]))
            return 'reject|generic', True
        if exc == 'None':
            raise Violation('status-error-not-raised', 'status %s/%s: caller got None instead of an error' % (case['top'], case['sub']))
        if exc != 'StatusError' and exc.lower() != ('status' + case['sub']).lower():
            # (a top-level code used as sub-code has a class of its own in the library's table: fine)
            # "... and a generic error otherwise": a sub-code outside the documented table gets the generic status error, not an accident of the look-up
            raise Violation('wrong-generic-status-error', 'status %s with sub-status %s (not one of the standard second-level codes) gave %s (%s), expected the generic StatusError'
                            % (case['top'], case['sub'], exc, v[2]))
        return 'reject|other-sub', True
    return 'reject|' + ('version' if not ok_version else 'no-status' if case['top'] is None else 'no-assertion'), True


# ------------------------------------------------------------------ requests
_idp = {}


def idp():
    if 'i' not in _idp:
        world.install_inprocess_tool()
        sp_md = build.entity_xml({'entityid': spside.SP, 'sp': {'keys': [('signing', 0)], 'acs': [(world.POST, spside.ACS_POST, 0, True)],
                                                                  'slo': [(world.REDIRECT, 'https://sp.verif.example/slo'), (world.SOAP, 'https://sp.verif.example/slo/soap')]}})
        _idp['i'] = world.make_idp(world.idp_conf(dict(world.DEFAULT_IDP), [sp_md]))
        clock.install()
    return _idp['i']


def request_rows():
    out = []
    for v in VERSIONS:
        for typ in ('authn', 'logout'):
            for binding in ('redirect', 'post', 'soap'):
                if typ == 'authn' and binding == 'soap':
                    continue
                out.append({'kind': 'request', 'typ': typ, 'binding': binding, 'version': v})
    return out


def run_request(case):
    now = spside.NOW
    server = idp()
    clock.set_now(now)
    b = {'redirect': world.REDIRECT, 'post': world.POST, 'soap': world.SOAP}[case['binding']]
    if case['typ'] == 'authn':
        dest = 'https://idp.verif.example/sso' if case['binding'] == 'redirect' else 'https://idp.verif.example/sso/post'
        xml = build.authn_request_xml({'id': 'id-q-1', 'version': case['version'], 'issue_instant': build.ts(now), 'destination': dest, 'issuer': spside.SP,
                                       'acs_url': spside.ACS_POST, 'protocol_binding': world.POST, 'name_id_policy': {'format': build.TRANSIENT, 'allow_create': 'true'}})
    else:
        dest = 'https://idp.verif.example/slo' if case['binding'] == 'redirect' else 'https://idp.verif.example/slo/soap'
        xml = build.logout_request_xml({'id': 'id-q-1', 'version': case['version'], 'issue_instant': build.ts(now), 'destination': None if case['binding'] == 'post' else dest,
                                        'issuer': spside.SP})
    enc = build.deflate_b64(xml) if case['binding'] == 'redirect' else (build.b64(xml) if case['binding'] == 'post' else build.soap_envelope(xml))
    try:
        if case['typ'] == 'authn':
            req = server.parse_authn_request(enc, b)
        else:
            req = server.parse_logout_request(enc, b)
        err = None
    except Exception as e:
        req, err = None, e
    accepted = req is not None and getattr(req, 'message', None) is not None
    if case['version'] == '2.0':
        if not accepted:
            raise Violation('valid-request-rejected', '%s request over %s with Version 2.0 rejected: %r' % (case['typ'], case['binding'], err))
        return 'request|accept', False
    if accepted:
        raise Violation('request-version-accepted', '%s request over %s with Version %r handed to the application' % (case['typ'], case['binding'], case['version']))
    return 'request|reject', True


def parts(tier):
    return [
        Part('responses', run_response, cases=status_rows, exhaustive=True, mandatory=['accept', 'reject|specific-class', 'reject|generic', 'reject|version']),
        Part('requests', run_request, cases=request_rows, exhaustive=True, mandatory=['request|accept', 'request|reject']),
    ]
