"""C13 - schema validation rejects every structurally invalid message (and accepts valid ones).

Enumerated: for every class a valid instance (must be accepted) and, one at a time, every (required attribute),
(child, occurrence bound) and (typed attribute/text, invalid spelling) fault, planted at the root and nested under
possible parent classes (must be rejected).  Generated: Hypothesis instance trees with at most one fault at a random
node, judged by the reference validator written from the statement (harness/models/validator.py)."""
import copy
from harness.runner import Part, Violation
from harness import schema_gen as G
from harness.models import validator as R

PROPERTY = 'C13'
LEVEL = 'exploration'
RULE = ('enumerated: all (class, required attribute), (class, child, min/max bound) and (class, typed attribute or text, invalid spelling) '
        'triples of all schema modules, each violated alone inside an otherwise valid full instance, at the root and under up to 2 parent classes '
        'and 1 grandparent; plus the unfaulted instance per class (exhaustive over the tables). generated: random valid trees with 0 or 1 '
        'fault at a random node. Non-trivial = faulted case, or valid instance with children; distinct = distinct (class, constraint, placement).')
ASSUMPTIONS = ['reference validator = required attributes non-empty, c_cardinality min/max, typed values for dateTime/boolean/integer kinds/duration/enumerations',
               'grey-zone spellings (TRUE, +5, 24:00:00) and maxlen facets are not generated',
               'valid instances honour the class-specific verify() rules of saml.py (IP address in SubjectLocality, AttributeValue text, '
               'AuthnContext decl/declref exclusive, Assertion subject rules)']


def _fixups(spec):
    """make a table-valid spec also satisfy the hand-written verify() overrides (they are extra, legitimate rules)."""
    cn = spec['cls']
    base = cn.split(':')[1]
    if cn.startswith('saml:'):
        if base in ('SubjectLocality', 'SubjectLocalityType_'):
            if 'address' in spec['attrs']:
                spec['attrs']['address'] = '192.0.2.7'
            if 'dns_name' in spec['attrs']:
                spec['attrs']['dns_name'] = 'host.example.org'
        if base in ('AuthnContext', 'AuthnContextType_'):
            if spec['children'].get('authn_context_decl') and spec['children'].get('authn_context_decl_ref'):
                del spec['children']['authn_context_decl_ref']
        if base in ('AttributeValue', 'AttributeValueBase') and not spec.get('text'):
            spec['text'] = 'value'
        if base in ('Assertion', 'AssertionType_') and not spec['children'].get('subject'):
            spec['children']['subject'] = [G.full_spec('saml:Subject', 0, 0)]
        if base in ('Conditions', 'ConditionsType_'):
            for m in ('one_time_use', 'proxy_restriction'):
                if len(spec['children'].get(m, [])) > 1:
                    spec['children'][m] = spec['children'][m][:1]
    for lst in spec['children'].values():
        for c in lst:
            _fixups(c)
    return spec


def valid_spec(cn, depth=1, variant=0):
    return _fixups(G.full_spec(cn, depth, variant))


_parents = None


def parents():
    """child class name -> [(parent class name, member, is_list)]"""
    global _parents
    if _parents is None:
        p = {}
        for cn, cls in sorted(G.classes().items()):
            for tag, member, ccls, is_list in G.children_of(cls):
                if G.usable_child(ccls) and G.cname(ccls) in G.classes():
                    p.setdefault(G.cname(ccls), []).append((cn, member, is_list))
        _parents = p
    return _parents


def faults_for(cn):
    """[(kind, detail...)] single faults applicable to class cn"""
    cls = G.classes()[cn]
    out = []
    for xn, member, typ, req in G.attrs_of(cls):
        if req:
            out.append(['req-missing', member])
            out.append(['req-empty', member])
            if cls.c_namespace and not xn.startswith('{'):
                # the declared (unqualified) attribute is absent; an attribute of the same local name qualified with the element's own namespace is there instead
                out.append(['req-qualified-lookalike', member, xn])
        tn = G.type_name(typ)
        if isinstance(tn, tuple) and tn[0] == 'enum':
            out.append(['attr-type', member, 'not-in-enumeration-xyz'])
        elif tn in G.INVALID_VALUES:
            for v in G.INVALID_VALUES[tn]:
                out.append(['attr-type', member, v])
    vt = getattr(cls, 'c_value_type', None)
    if vt and 'maxlen' not in vt:
        tn = G.value_type_name(vt)
        if isinstance(tn, tuple) and tn[0] == 'enum':
            out.append(['text-type', 'not-in-enumeration-xyz'])
        elif tn in G.INVALID_VALUES:
            for v in G.INVALID_VALUES[tn]:
                if v != '':         # an element without character data has no text value to judge (the empty string is an attribute matter)
                    out.append(['text-type', v])
    for tag, member, ccls, is_list in G.children_of(cls):
        if not G.usable_child(ccls) or G.cname(ccls) not in G.classes():
            continue
        cmin, cmax = G.card(cls, member)
        if cmin:
            out.append(['below-min', member, cmin - 1])
        if cmax is not None:
            out.append(['above-max', member, cmax + 1])
    return out


def apply_fault(spec, fault):
    kind = fault[0]
    cls = G.classes()[spec['cls']]
    if kind == 'req-missing':
        spec['attrs'].pop(fault[1], None)
    elif kind == 'req-empty':
        spec['attrs'][fault[1]] = ''
    elif kind == 'req-qualified-lookalike':
        v = spec['attrs'].pop(fault[1], None) or 'value'
        spec.setdefault('ext_attrs', {})['{%s}%s' % (cls.c_namespace, fault[2])] = v
    elif kind == 'attr-type':
        spec['attrs'][fault[1]] = fault[2]
    elif kind == 'text-type':
        spec['text'] = fault[1]
    elif kind == 'below-min':
        lst = spec['children'].get(fault[1], [])
        spec['children'][fault[1]] = lst[:fault[2]]
        if not spec['children'][fault[1]]:
            del spec['children'][fault[1]]
    elif kind == 'above-max':
        member = fault[1]
        ccls = [c for t, m, c, il in G.children_of(cls) if m == member][0]
        lst = list(spec['children'].get(member, []))
        while len(lst) < fault[2]:
            lst.append(valid_spec(G.cname(ccls), 0, len(lst)))
        spec['children'][member] = lst
        if not [il for t, m, c, il in G.children_of(cls) if m == member][0]:
            spec.setdefault('as_list', []).append(member)
    return spec


def place(cn, spec, placement):
    """wrap `spec` (instance of cn) under parent chain `placement` = [(parent cn, member), ...] innermost first"""
    cur = spec
    for pcn, member in placement:
        p = valid_spec(pcn, 1, 1)
        pcls = G.classes()[pcn]
        is_list = [il for t, m, c, il in G.children_of(pcls) if m == member][0]
        lst = p['children'].get(member, [])
        if is_list and lst:
            lst = [cur] + lst[1:]
        else:
            lst = [cur]
        p['children'][member] = lst
        if member == 'authn_context_decl_ref':
            p['children'].pop('authn_context_decl', None)
        if member == 'authn_context_decl':
            p['children'].pop('authn_context_decl_ref', None)
        cur = p
    return cur


def verdict(spec):
    obj = G.build(spec)
    try:
        obj.verify()
        return None
    except Exception as e:
        return e


def _interleave(el):
    """reorder children so that same-named siblings are no longer contiguous (A A B -> A B A), recursively; returns True if anything moved"""
    moved = False
    kids = list(el)
    tags = [k.tag for k in kids]
    for t in dict.fromkeys(tags):
        idx = [i for i, x in enumerate(tags) if x == t]
        others = [i for i, x in enumerate(tags) if x != t]
        if len(idx) >= 2 and others:
            order = [idx[0]] + others + idx[1:]
            for k in kids:
                el.remove(k)
            for i in order:
                el.append(kids[i])
            moved = True
            break
    for k in el:
        moved = _interleave(k) or moved
    return moved


def parsed_verdicts(spec):
    """the statement is about *parsed* messages: serialise the instance, parse the text back (as it is, and with same-named siblings made non-contiguous) and validate that"""
    from xml.etree import ElementTree as ET
    from saml2_tophat import create_class_from_xml_string
    cls = G.classes()[spec['cls']]
    try:
        text = G.build(spec).to_string()
    except Exception:
        return []
    out = []
    root = ET.fromstring(text)
    variants = [('parsed', text)]
    if _interleave(root):
        variants.append(('parsed-interleaved', ET.tostring(root)))
    for name, t in variants:
        try:
            obj = create_class_from_xml_string(cls, t)
        except Exception as e:
            out.append((name, e))
            continue
        if obj is None:
            out.append((name, ValueError('not parsed')))
            continue
        try:
            obj.verify()
            out.append((name, None))
        except Exception as e:
            out.append((name, e))
    return out


def run_enum(case):
    cn = case['cls']
    spec = valid_spec(cn, 0 if case.get('shape') == 'min' else 1, 0)
    for dropped in case.get('drop_attrs', ()):
        spec['attrs'].pop(dropped, None)
    fault = case.get('fault')
    if fault:
        spec = apply_fault(spec, fault)
    top = place(cn, spec, [tuple(p) for p in case.get('placement', [])])
    problems = R.problems(top)
    if not fault:
        if problems:
            raise ValueError('harness: generated "valid" instance of %s is invalid by the reference validator: %r' % (cn, problems[:3]))
        e = verdict(top)
        if e is not None:
            raise Violation('valid-rejected', '%s: an instance satisfying every declared constraint is rejected: %s: %s' % (cn, type(e).__name__, str(e)[:200]),
                            detail={'type': type(e).__name__})
        for route, e2 in parsed_verdicts(top):
            if route == 'parsed' and e2 is not None:
                raise Violation('valid-rejected', '%s: an instance satisfying every declared constraint is rejected after serialise + parse: %s: %s' % (cn, type(e2).__name__, str(e2)[:200]),
                                detail={'type': type(e2).__name__})
        return 'valid|' + ('nested' if case.get('placement') else 'root') + '|' + case.get('shape', 'full'), True
    if not problems:
        raise ValueError('harness: fault %r on %s is not a fault by the reference validator' % (fault, cn))
    e = verdict(top)
    if e is None:
        raise Violation('invalid-accepted', '%s: fault %r (%s) under %r is accepted by validation' % (cn, fault, problems[0], case.get('placement', [])), detail={'fault': fault})
    for route, e2 in parsed_verdicts(top):
        if e2 is None:
            raise Violation('invalid-accepted', '%s: fault %r (%s) under %r is accepted by validation of the %s message' % (cn, fault, problems[0], case.get('placement', []), route),
                            detail={'fault': fault, 'route': route})
    return 'fault|%s|%s' % (fault[0], 'depth%d' % len(case.get('placement', []))), True


_cases = {}


def enum_cases(tier):
    if tier in _cases:
        return _cases[tier]
    out = []
    par = parents()
    for cn in sorted(G.classes()):
        pls = [[]]
        ps = par.get(cn, [])
        # nested placements: up to 2 parents, one grandparent
        chosen = ps[:2] if tier == 'quick' else ps[:4]
        for (pcn, member, il) in chosen:
            pls.append([[pcn, member]])
        if chosen:
            pcn, member, il = chosen[0]
            gps = [g for g in par.get(pcn, []) if g[0] != cn and g[0] != pcn]
            if gps:
                pls.append([[pcn, member], [gps[0][0], gps[0][1]]])
        has_kids = bool(G.children_of(G.classes()[cn]))
        for shape in (('full', 'min') if has_kids else ('full',)):
            for pl in pls:
                out.append({'cls': cn, 'placement': pl, 'shape': shape})
            for f in faults_for(cn):
                for pl in pls:
                    out.append({'cls': cn, 'fault': f, 'placement': pl, 'shape': shape})
    # class-specific verify() rules look at one attribute only when another is absent: enumerate those shapes too
    for cn in ('saml:SubjectLocality', 'saml:SubjectLocalityType_'):
        for pl in ([], [['saml:AuthnStatement', 'subject_locality']]):
            if cn.endswith('Type_') and pl:
                continue
            out.append({'cls': cn, 'placement': pl, 'shape': 'full', 'drop_attrs': ['address']})
            out.append({'cls': cn, 'placement': pl, 'shape': 'full', 'drop_attrs': ['dns_name']})
    _cases[tier] = out
    return out


def generated_strategy():
    from hypothesis import strategies as st
    names = sorted(G.classes())
    return st.sampled_from(names).flatmap(
        lambda cn: st.fixed_dictionaries({'spec': G.instance_strategy(cn, 2, st.just('value'), valid=True),
                                          'fault_node': st.integers(0, 30), 'fault_pick': st.integers(0, 50), 'do_fault': st.booleans()}))


def _nodes(spec, acc):
    acc.append(spec)
    for lst in spec['children'].values():
        for c in lst:
            _nodes(c, acc)
    return acc


def run_generated(case):
    spec = _fixups(copy.deepcopy(case['spec']))
    label = 'valid'
    f = None
    if case['do_fault']:
        nodes = _nodes(spec, [])
        node = nodes[case['fault_node'] % len(nodes)]
        fs = faults_for(node['cls'])
        if fs:
            f = fs[case['fault_pick'] % len(fs)]
            apply_fault(node, f)
            label = 'fault|' + f[0]
    problems = R.problems(spec)
    e = verdict(spec)
    if problems and e is None:
        raise Violation('invalid-accepted', '%s: %s is accepted by validation' % (spec['cls'], problems[0]), detail={'fault': f})
    routes = parsed_verdicts(spec)
    for route, e2 in routes:
        if problems and e2 is None:
            raise Violation('invalid-accepted', '%s: %s is accepted by validation of the %s message' % (spec['cls'], problems[0], route), detail={'fault': f, 'route': route})
        if not problems and e2 is not None and route == 'parsed':
            raise Violation('valid-rejected', '%s: an instance satisfying every declared constraint is rejected after serialise + parse: %s: %s' % (spec['cls'], type(e2).__name__, str(e2)[:200]),
                            detail={'type': type(e2).__name__})
    if any(r == 'parsed-interleaved' for r, _ in routes):
        label += '|interleaved'
    if not problems and e is not None:
        raise Violation('valid-rejected', '%s: an instance satisfying every declared constraint is rejected: %s: %s' % (spec['cls'], type(e).__name__, str(e)[:200]),
                        detail={'type': type(e).__name__})
    return label + ('|tree' if spec['children'] else '|leaf'), bool(problems) or bool(spec['children'])


def parts(tier):
    quick = tier != 'thorough'
    return [
        Part('tables', run_enum, cases=lambda: enum_cases(tier), exhaustive=True),
        Part('generated', run_generated, strategy=generated_strategy, examples=6000 if quick else 200000),
    ]


def known_match(part, case, v):
    f = (v.detail or {}).get('fault') if v.bucket == 'invalid-accepted' else None
    if f and f[0] in ('attr-type', 'text-type'):
        for key, (tn, values) in G.LENIENT_KNOWN.items():
            if f[-1] in values and tn in v.msg:
                return key
    return None
