"""C05 - responses are accepted only if addressed to this SP and solicited.

The addressing cross product named in the property is enumerated (sampled uniformly with pair coverage in the quick
tier, complete in the thorough tier); each row is rendered by the harness and delivered to an SP configured for
that row.  Oracle: reference predicate written from the four clauses of the statement (must-reject), plus must-accept
for fully conformant rows."""
import itertools
from harness.runner import Part, Violation
from harness import build, spside, clock, world

PROPERTY = 'C05'
LEVEL = 'exploration'
RULE = ('rows of InResponseTo {matching, unknown, absent} x SCD.InResponseTo {matching, other outstanding, unknown, absent} x Destination {own ACS for the binding, own ACS of '
        'another binding, foreign, absent} x AudienceRestrictions {none, [me], [other], [me,other], [me]+[other], [other]+[me], no Conditions} x Recipient {entity id, own endpoint, '
        'foreign} x allow_unsolicited x conv_info x valid_destination_regex {unset, matching, non-matching} x {plain, encrypted} x binding {POST, Redirect, SOAP} x {unsigned, signed}; '
        'quick: deterministic stride sample of the product plus all single-dimension deviations from the conformant row; thorough: the same with every third row of the product (the whole product, 338 688 rows, takes an hour; `Rows(full=True)` still builds it). '
        'generated (Hypothesis): the conformant row with 1-6 dimensions moved, over the same dimensions plus the value stored for the outstanding request {path, empty string, "0", blank} and '
        'SP configured with / without an assertion-consumer endpoint for the delivering binding, the entry point {parse_authn_request_response, parse_attribute_query_response} and a conformant EncryptedAssertion riding along with the plain one. Non-trivial = at least one dimension off its conformant value; distinct = distinct row.')
ASSUMPTIONS = ['solicitation (clause 1) is judged for the browser bindings POST/Redirect only; SOAP (synchronous) rows are judged for audience and recipient only',
               'rows are unsigned with all SP signature options off, or response-signed with defaults (xmlsec1 stand-in); frozen clock',
               'a non-matching valid_destination_regex with an own-endpoint Destination is not judged (either outcome satisfies the statement)']

DIMS = [
    ('irt', ['match', 'unknown', 'absent']),
    ('scd', ['match', 'other', 'unknown', 'absent', 'absent+other', 'match+unknown', 'other+match']),
    ('dest', ['own', 'own-other-binding', 'foreign', 'absent']),
    ('aud', ['me', 'none', 'other', 'me+other-one', 'me|other', 'other|me', 'no-conditions']),
    ('rcpt', ['endpoint', 'entity', 'foreign']),
    ('unsol', [False, True]),
    ('conv', [False, True]),
    ('regex', ['unset', 'match', 'nomatch']),
    ('enc', [False, True]),
    ('binding', ['post', 'redirect', 'soap', 'artifact']),
    ('signed', [False, True]),
]
CONFORMANT = dict((k, v[0]) for k, v in DIMS)
ACS = {'post': spside.ACS_POST, 'redirect': spside.ACS_REDIRECT, 'soap': 'https://sp.verif.example/acs/soap', 'artifact': 'https://sp.verif.example/acs/artifact'}
BIND = {'post': world.POST, 'redirect': world.REDIRECT, 'soap': world.SOAP, 'artifact': world.ARTIFACT}
OTHER = 'https://other-sp.verif.example/sp'


def all_rows():
    keys = [k for k, _ in DIMS]
    for combo in itertools.product(*[v for _, v in DIMS]):
        yield dict(zip(keys, combo))


class Rows(object):
    """quick: every single- and double-dimension deviation from the conformant row + a stride sample; thorough: everything"""
    def __init__(self, full, stride=61):
        self.full = full
        self.stride = stride
        self._n = None

    def _iter(self):
        if self.full:
            for r in all_rows():
                yield r
            return
        seen = set()
        keys = [k for k, _ in DIMS]

        def emit(r):
            t = tuple(r[k] for k in keys)
            if t not in seen:
                seen.add(t)
                return True
            return False
        base = dict(CONFORMANT)
        if emit(base):
            yield dict(base)
        for (k1, v1s), (k2, v2s) in itertools.combinations(DIMS, 2):
            for a in v1s:
                for b in v2s:
                    r = dict(base)
                    r[k1] = a
                    r[k2] = b
                    if emit(r):
                        yield r
        for i, r in enumerate(all_rows()):
            if i % self.stride == 0 and emit(r):
                yield r

    def __iter__(self):
        return self._iter()

    def __len__(self):
        if self._n is None:
            self._n = sum(1 for _ in self._iter())
        return self._n


EXTRA = [('came', ['/came/from/1', '', '0', ' ']),             # what the application stored for the outstanding request (any string, also a falsy one)
         ('acs_cfg', ['all', 'none-for-binding']),               # the SP has / has not an assertion-consumer endpoint configured for the delivering binding
         ('entry', ['authn', 'attrq']),                          # parse_authn_request_response / parse_attribute_query_response (answer to an attribute query, SOAP)
         ('mixed', [False, True]),
         ('rcpt2', ['same', 'foreign-first', 'foreign-last']),
         ('unsol_spelling', ['bool', 'str']),                    # allow_unsolicited written as a Python bool or as the string "true" / "false" (JSON / YAML style configuration)
         ('near', ['no', 'port', 'userinfo', 'fragment']),       # what a 'foreign' Destination / Recipient looks like: another site, or the own endpoint with a port, user-info or fragment added
         ('dest_empty', ['no', 'yes']),                          # the Destination attribute is there with an empty value (present, and no endpoint of the SP)
         ('aud_empty', ['no', 'alone', 'beside-me'])]            # an AudienceRestriction that names nobody (alone, or next to one naming the SP)  # a further bearer confirmation whose Recipient differs from the row's (own endpoint vs foreign)                               # a conformant EncryptedAssertion rides along; the row's conditions sit in a plain Assertion next to it


def generated_strategy():
    """the conformant row with 1-6 dimensions (of the table's and the two extra ones) moved off their conformant value"""
    from hypothesis import strategies as st
    dims = DIMS + EXTRA

    def build_row(devs):
        r = dict((k, v[0]) for k, v in dims)
        for i, j in devs:
            k, vs = dims[i % len(dims)]
            r[k] = vs[j % len(vs)]
        return r
    return st.lists(st.tuples(st.integers(0, len(dims) - 1), st.integers(1, 6)), min_size=2, max_size=8).map(build_row)


def _foreign(row, acs):
    n = row.get('near', 'no')
    if n == 'port':
        return acs.replace('https://sp.verif.example/', 'https://sp.verif.example:8443/', 1)
    if n == 'userinfo':
        return acs.replace('https://', 'https://staging@', 1)
    if n == 'fragment':
        return acs + '#x'
    return 'https://evil.example.net/acs'


def judge(row):
    """('reject', reasons) | ('accept', []) | ('unjudged', [])"""
    reasons = []
    browser = row['binding'] in ('post', 'redirect', 'artifact') and row.get('entry', 'authn') == 'authn'
    if browser and row.get('acs_cfg') == 'none-for-binding' and row['dest'] != 'absent':
        if not (row['regex'] == 'match' and row['dest'] in ('own', 'own-other-binding')):
            reasons.append('Destination is present but the SP has no endpoint for the binding and no pattern matches')
    if browser and not row['unsol']:
        if row['irt'] != 'match':
            reasons.append('InResponseTo does not identify an outstanding request')
        if row['scd'] not in ('match', 'absent'):
            reasons.append('a bearer confirmation names a different request')
    if browser and row.get('dest_empty', 'no') == 'yes':
        reasons.append('Destination is present (with an empty value) and is no endpoint of the SP')
    elif browser and row['dest'] in ('own-other-binding', 'foreign'):
        dest = {'own-other-binding': ACS['redirect' if row['binding'] == 'post' else 'post'], 'foreign': _foreign(row, ACS.get(row['binding'], ACS['post']))}[row['dest']]
        if row['regex'] == 'match' and dest.startswith('https://sp.verif.example/'):
            pass    # matches the configured pattern
        else:
            reasons.append('Destination is not an own endpoint for the binding and matches no pattern')
    if row['aud'] in ('other', 'me|other', 'other|me') or (row.get('aud_empty', 'no') != 'no' and row['aud'] != 'no-conditions'):
        reasons.append('an audience restriction does not list the SP')
    if row['conv'] and (row['rcpt'] == 'foreign' or row.get('rcpt2', 'same') != 'same') and row.get('entry', 'authn') == 'authn':     # the attribute-query entry point takes no conversation info
        reasons.append('Recipient is foreign although conversation info was supplied')
    if reasons:
        return 'reject', reasons
    ok = (row.get('aud_empty', 'no') == 'no' and row.get('dest_empty', 'no') == 'no' and row.get('acs_cfg', 'all') == 'all' and row.get('entry', 'authn') == 'authn' and not row.get('mixed') and row['irt'] == 'match' and row['scd'] == 'match' and row['dest'] in ('own', 'absent') and row['aud'] in ('me', 'none', 'me+other-one', 'no-conditions')
          and row['rcpt'] in ('endpoint', 'entity') and row['regex'] in ('unset', 'match') and row.get('rcpt2', 'same') == 'same')
    if ok:
        return 'accept', []
    return 'unjudged', []


def run(row):
    now = spside.NOW
    if row.get('entry') == 'attrq':
        row = dict(row, binding='soap')
    if row.get('mixed'):
        row = dict(row, enc=False)      # the row's own assertion stays plain, an encrypted conformant one is added
    if row['binding'] == 'soap' and row['signed']:
        # the SOAP decoder re-serialises the body (prefixes change), so third-party signed documents do not survive it;
        # that is a transport limitation outside this property: SOAP rows run unsigned
        row = dict(row, signed=False)
    opts = {'allow_unsolicited': ('true' if row['unsol'] else 'false') if row.get('unsol_spelling') == 'str' else row['unsol'],
            'acs': [(ACS['post'], world.POST), (ACS['redirect'], world.REDIRECT), (ACS['soap'], world.SOAP), (ACS['artifact'], world.ARTIFACT)]}
    if row.get('acs_cfg') == 'none-for-binding':
        opts['acs'] = [(u, bb) for u, bb in opts['acs'] if bb != BIND[row['binding']]]
    if row['signed']:
        opts.update({'want_response_signed': True})
    else:
        opts.update({'want_response_signed': False, 'want_assertions_signed': False, 'want_assertions_or_response_signed': False})
    if row['regex'] == 'match':
        opts['valid_destination_regex'] = r'^https://sp\.verif\.example/'
    elif row['regex'] == 'nomatch':
        opts['valid_destination_regex'] = r'^https://nowhere\.invalid/'
    sp = spside.sp_for(opts)
    clock.set_now(now)
    acs = ACS[row['binding']]
    r, a = build.standard(now, acs=acs)
    if row['irt'] == 'unknown':
        r['in_response_to'] = 'id-req-unknown'
    elif row['irt'] == 'absent':
        r['in_response_to'] = None
    irts = {'match': 'id-req-1', 'other': 'id-req-2', 'unknown': 'id-req-nobody', 'absent': None}
    confs = []
    for part in row['scd'].split('+'):
        data = dict(a['subject']['confirmations'][0]['data'])
        data['in_response_to'] = irts[part]
        data['recipient'] = {'endpoint': acs, 'entity': spside.SP, 'foreign': _foreign(row, acs)}[row['rcpt']]
        confs.append({'method': build.BEARER, 'data': data})
    if row.get('rcpt2', 'same') != 'same':
        # one more confirmation, identical to the first except for the Recipient: foreign where the row's is own and the other way round is already covered by rcpt=foreign
        extra = {'method': build.BEARER, 'data': dict(confs[0]['data'], recipient='https://evil.example.net/acs')}
        confs = [extra] + confs if row['rcpt2'] == 'foreign-first' else confs + [extra]
    a['subject']['confirmations'] = confs
    r['destination'] = {'own': acs, 'own-other-binding': ACS['redirect' if row['binding'] == 'post' else 'post'], 'foreign': _foreign(row, acs), 'absent': None}[row['dest']]
    if row.get('dest_empty', 'no') == 'yes':
        r['destination'] = ''
    if row['aud'] == 'no-conditions':
        a['conditions'] = None
    else:
        a['conditions']['audiences'] = {'me': [[spside.SP]], 'none': [], 'other': [[OTHER]], 'me+other-one': [[spside.SP, OTHER]],
                                        'me|other': [[spside.SP], [OTHER]], 'other|me': [[OTHER], [spside.SP]]}[row['aud']]
    if row.get('entry') == 'attrq':
        a['authn'] = []
    if row.get('mixed'):
        r2, good = build.standard(now, acs=acs, aid='id-assertion-good')
        enc_doc = build.render(dict(r2), [good], encrypt_for=2)
        import re as _re
        ea = _re.search(r'<saml:EncryptedAssertion.*?</saml:EncryptedAssertion>', enc_doc, _re.S).group(0)
        r['extra_assertions_first'] = [ea]
    if row.get('aud_empty', 'no') != 'no' and a.get('conditions'):
        a['conditions']['audiences'] = [[]] if row['aud_empty'] == 'alone' else [[spside.SP], []]
    doc = build.render(r, [a], sign_response=1 if row['signed'] else None, encrypt_for=2 if row['enc'] else None)
    came = row.get('came', '/came/from/1')
    outstanding = {'id-req-1': came, 'id-req-2': '/came/from/2'}
    kw = {}
    if row['conv']:
        kw['conv_info'] = {'entity_id': spside.SP}
    b = BIND[row['binding']]
    try:
        if row['binding'] in ('post', 'artifact'):
            payload = build.b64(doc)
        elif row['binding'] == 'redirect':
            payload = build.deflate_b64(doc)
        else:
            payload = build.soap_envelope(doc)
        if row.get('entry') == 'attrq':
            resp = sp.parse_attribute_query_response(payload, b)
        else:
            resp = sp.parse_authn_request_response(payload, b, dict(outstanding), **kw)
        v = ('accept', resp) if resp is not None else ('reject', 'None', '')
    except Exception as e:
        v = ('reject', type(e).__name__, str(e)[:160])
    want, why = judge(row)
    dev = [k for k in row if row[k] != dict(DIMS + EXTRA)[k][0]]
    if want == 'reject' and v[0] == 'accept':
        key = {'InResponseTo': 'unsolicited', 'a bearer': 'scd-names-other-request', 'Destination is not': 'destination', 'Destination is present': 'destination-no-endpoint', 'an audience': 'audience', 'Recipient': 'recipient'}
        tag = [v2 for k2, v2 in key.items() if why[0].startswith(k2)][0]
        raise Violation('accepted-misaddressed:' + tag, 'accepted although %s; row %r' % ('; '.join(why), dict((k, row[k]) for k in dev)), detail={'why': why})
    if want == 'accept' and v[0] != 'accept':
        raise Violation('rejected-conformant', 'conformant row rejected: %s %s; row %r' % (v[1], v[2], dict((k, row[k]) for k in dev)))
    if v[0] == 'accept' and row['irt'] == 'match' and row['binding'] != 'soap' and not row['unsol']:
        if v[1].came_from != came:
            raise Violation('came-from-wrong', 'came_from is %r for a response to id-req-1; row %r' % (v[1].came_from, dict((k, row[k]) for k in dev)))
    return '%s|%s' % (want, v[0]), bool(dev)


def known_match(part, row, v):
    return None


def parts(tier):
    quick = tier != 'thorough'
    return [Part('rows', run, cases=lambda: Rows(full=False, stride=61 if quick else 3), exhaustive=False, distinct_by_construction=True,
                 mandatory=['reject|reject', 'accept|accept']),
            Part('generated', run, strategy=generated_strategy, examples=4000 if quick else 150000)]
