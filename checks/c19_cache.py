"""C19 - the SP session cache returns only unexpired data of the right subject.

Histories of Cache / Population operations are generated (Hypothesis lists of operations; bounded
exhaustive enumeration over a small alphabet) and applied in lock step to an in-memory Cache, a
file-backed (shelve) Cache and a reference dict model written from the property statement, under a
frozen clock.  Every read is compared with the model after every step.
"""
import itertools, copy
from harness.runner import Part, Violation
from harness import clock

PROPERTY = 'C19'
LEVEL = 'exploration'
RULE = ('Operation histories over Cache()/Cache(file)/Population (set, get, get_identity, reset, delete, active, '
        'entities, subjects, add_information_about_person, stale_sources_for_person, remove_person, clock advance); '
        'generated: Hypothesis lists of 1..40 ops over a pool of name ids differing in exactly one field; '
        'exhaustive: every sequence up to the stated length over 2 subjects x 2 sources x 3 expiries; expiry-instant: expiry stored as int / xs:dateTime string / struct_time (alone and pairwise) x query at T-2..T+2 incl. T itself x backend, all accessors. '
        'Non-trivial = history contains a read after an expiry/reset/delete or touches two subjects; '
        'distinct = distinct history (hash of the op list).')
ASSUMPTIONS = ['frozen clock by rebinding module globals time/datetime in saml2_tophat modules (DESIGN 2.4)',
               'in histories instants exactly equal to an expiry are never generated (expiries odd, clock even); the expiry-instant part queries at the instant itself and there only requires that all accessors and all representations of that instant agree',
               'reference model transcribes the C19 statement; exceptions on unknown subject/source are allowed, '
               'any returned value is compared exactly']

BASE = 1700000000  # even

# name-id pool: index 0 is the base, 1..5 differ from it in exactly one field, 6.. contain separators
POOL = [
    {'name_qualifier': 'nq', 'sp_name_qualifier': 'spnq', 'format': 'fmt', 'sp_provided_id': 'spid', 'text': 'alice'},
    {'name_qualifier': 'nq2', 'sp_name_qualifier': 'spnq', 'format': 'fmt', 'sp_provided_id': 'spid', 'text': 'alice'},
    {'name_qualifier': 'nq', 'sp_name_qualifier': 'spnq2', 'format': 'fmt', 'sp_provided_id': 'spid', 'text': 'alice'},
    {'name_qualifier': 'nq', 'sp_name_qualifier': 'spnq', 'format': 'fmt2', 'sp_provided_id': 'spid', 'text': 'alice'},
    {'name_qualifier': 'nq', 'sp_name_qualifier': 'spnq', 'format': 'fmt', 'sp_provided_id': 'spid2', 'text': 'alice'},
    {'name_qualifier': 'nq', 'sp_name_qualifier': 'spnq', 'format': 'fmt', 'sp_provided_id': 'spid', 'text': 'alicf'},
    {'name_qualifier': None, 'sp_name_qualifier': None, 'format': None, 'sp_provided_id': None, 'text': 'alice'},
    {'name_qualifier': 'nq', 'sp_name_qualifier': 'spnq', 'format': 'fmt', 'sp_provided_id': None, 'text': 'alice'},
    {'name_qualifier': None, 'sp_name_qualifier': 'spnq', 'format': 'fmt', 'sp_provided_id': 'spid', 'text': 'alice'},
    {'name_qualifier': 'n,1=q', 'sp_name_qualifier': 'a%2Cb', 'format': 'f=4', 'sp_provided_id': '4=x,0=y', 'text': u'alïce ,4=z'},
    {'name_qualifier': 'n', 'sp_name_qualifier': None, 'format': None, 'sp_provided_id': None, 'text': 'q,1=spnq'},
]
SOURCES = ['urn:idp:a', 'urn:idp:b', 'urn:idp:c']
AVAS = [
    {'givenName': ['Alice']},
    {'givenName': ['Alice', 'Al'], 'mail': ['a@example.org']},
    {'mail': ['alice@b.example'], 'sn': ['Smith']},
    {'givenName': ['Bob'], 'eduPersonAffiliation': ['staff', 'member']},
    {},
    None,       # session information without an 'ava' entry at all (what session_info() of an authorisation-decision answer looks like): contributes no attributes
]
EXPIRY_OFFSETS = [-101, -1, 1, 101, 1000001]


_SUBJ = [None]     # per-history list of POOL indices; op subject numbers index into it


def _pi(i):
    sub = _SUBJ[0]
    return sub[i % len(sub)] if sub else i


def _nid(i):
    from saml2_tophat.saml import NameID
    return NameID(**POOL[_pi(i)])


def _key(i):
    return tuple((POOL[_pi(i)][a] or None) for a in ('name_qualifier', 'sp_name_qualifier', 'format', 'sp_provided_id', 'text'))


def _nid_key(n):
    return tuple((getattr(n, a) or None) for a in ('name_qualifier', 'sp_name_qualifier', 'format', 'sp_provided_id', 'text'))


class Model(object):
    def __init__(self):
        self.db = {}          # subject key -> {source: (expiry, info)}

    def set(self, k, src, info, exp):
        self.db.setdefault(k, {})[src] = (exp, info)

    def fresh(self, k, src, now, check):
        exp, info = self.db[k][src]
        if not info:
            return False
        if check and now > exp:
            return False
        return True


def _outcome(fn):
    try:
        return ('ok', fn())
    except Exception as e:      # classified, compared below
        return ('exc', type(e).__name__)


def _norm_identity(ident):
    return dict((k, sorted(v)) for k, v in ident.items())


def run_history(case, backends=('mem', 'file')):
    import os
    from saml2_tophat.cache import Cache
    from saml2_tophat.population import Population
    clock.install()
    _SUBJ[0] = case.get('subjects')
    now = BASE
    clock.set_now(now)
    caches = {}
    if 'mem' in backends:
        caches['mem'] = Cache()
    if 'file' in backends:
        fn = os.path.join(os.getcwd(), 'cache-%d.db' % os.getpid())
        for ext in ('', '.db', '.dat', '.dir', '.bak'):
            try:
                os.unlink(fn + ext)
            except OSError:
                pass
        caches['file'] = Cache(fn)
    pops = dict((k, Population(c)) for k, c in caches.items())
    model = Model()
    feats = set()
    subjects_touched = set()
    dirty = False       # an expiry / reset / delete has happened

    def every(label, f, judge):
        """run f(cache, pop) on all backends, require agreement, then judge one outcome."""
        outs = {}
        for name in caches:
            outs[name] = _outcome(lambda: f(caches[name], pops[name]))
        vals = list(outs.values())
        if any(_canon(v) != _canon(vals[0]) for v in vals[1:]):
            raise Violation('backends-disagree', '%s: in-memory and file-backed cache disagree: %r' % (label, outs))
        judge(vals[0])

    try:
        for op in case['ops']:
            name = op[0]
            if name == 'reopen':
                # the file-backed cache is closed and opened again: everything stored must still be there
                if 'file' in caches:
                    caches['file']._db.close()
                    caches['file'] = Cache(fn)
                    pops['file'] = Population(caches['file'])
                feats.add('reopen')
                continue
            if name == 'advance':
                now += op[1]
                clock.set_now(now)
                dirty = True
                feats.add('advance')
                continue
            if name in ('set', 'add_person'):
                _, ni, si, ai, eo = op
                exp = now + EXPIRY_OFFSETS[eo]
                k = _key(ni)
                src = SOURCES[si]
                info = {'ava': dict((a, list(v)) for a, v in (AVAS[ai] or {}).items()), 'came_from': 'cf-%d-%d' % (ni, si),
                        'not_on_or_after': exp, 'marker': 'm-%d-%d-%d' % (ni, si, ai)}
                no_ava = AVAS[ai] is None
                subjects_touched.add(k)
                if name == 'set':
                    def f(c, p, ni=ni, src=src, info=info, exp=exp, no_ava=no_ava):
                        i2 = copy.deepcopy(info); i2['name_id'] = _nid(ni)
                        if no_ava:
                            del i2['ava']
                        return c.set(_nid(ni), src, i2, exp)
                else:
                    def f(c, p, ni=ni, src=src, info=info, exp=exp, no_ava=no_ava):
                        i2 = copy.deepcopy(info); i2['name_id'] = _nid(ni); i2['issuer'] = src
                        if no_ava:
                            del i2['ava']
                        p.add_information_about_person(i2)
                        return None

                def judge(o):
                    if o[0] != 'ok':
                        raise Violation('set-raises', 'storing valid information raised %s' % o[1])
                every(name, f, judge)
                model.set(k, src, info, exp)
                if EXPIRY_OFFSETS[eo] < 0:
                    dirty = True
                continue
            if name == 'reset':
                _, ni, si = op
                k = _key(ni); src = SOURCES[si]
                every('reset', lambda c, p: c.reset(_nid(ni), src),
                      lambda o: None if o[0] == 'ok' else _raise('reset-raises', 'reset raised %s' % o[1]))
                model.set(k, src, {}, 0)
                subjects_touched.add(k)
                dirty = True
                feats.add('reset')
                continue
            if name in ('delete', 'remove_person'):
                _, ni = op
                k = _key(ni)
                known = k in model.db

                def judge(o, known=known):
                    if known and o[0] != 'ok':
                        raise Violation('delete-raises', 'delete of a stored subject raised %s' % o[1])
                if name == 'delete':
                    every('delete', lambda c, p: c.delete(_nid(ni)), judge)
                else:
                    every('remove_person', lambda c, p: p.remove_person(_nid(ni)), judge)
                if known:
                    del model.db[k]
                    dirty = True
                    feats.add('delete')
                continue
            # ---- reads
            if dirty:
                feats.add('read-after-change')
            if name in ('get', 'get_info_from'):
                _, ni, si, check = op
                k = _key(ni); src = SOURCES[si]
                known = k in model.db and src in model.db[k]

                def judge(o, k=k, src=src, known=known, check=check):
                    if not known:
                        if o[0] == 'ok' and o[1]:
                            raise Violation('get-foreign', 'get for a subject/source nothing was stored for returned %r' % (o[1],))
                        return
                    exp, info = model.db[k][src]
                    if check and now > exp:
                        if o[0] == 'ok' and o[1]:
                            raise Violation('get-expired', 'expired information returned: %r (now=%d expiry=%d)' % (o[1], now, exp))
                        return
                    if not info:
                        if o[0] == 'ok' and o[1]:
                            raise Violation('get-reset', 'reset source returned %r' % (o[1],))
                        return
                    if o[0] != 'ok':
                        raise Violation('get-raises', 'unexpired stored information not returned: %s' % o[1])
                    got = o[1]
                    if not got or got.get('marker') != info['marker'] or _norm_identity(got.get('ava', {})) != _norm_identity(info['ava']):
                        raise Violation('get-wrong', 'get returned %r, stored %r' % (got, info))
                    if 'name_id' in got and tuple(got['name_id'][1:]) != k:
                        raise Violation('get-wrong-nameid', 'session info carries name id %r for subject %r' % (got['name_id'], k))
                if name == 'get':
                    every('get', lambda c, p: _plain(c.get(_nid(ni), src, check)), judge)
                else:
                    every('get_info_from', lambda c, p: _plain(p.get_info_from(_nid(ni), src, check)), judge)
                continue
            if name in ('get_identity', 'pop_get_identity'):
                _, ni, srcs, check = op
                k = _key(ni)
                ents = [SOURCES[s] for s in srcs] if srcs else None

                def judge(o, k=k, ents=ents, check=check):
                    stored = model.db.get(k, {})
                    asked = ents if ents else list(stored.keys())
                    unknown = [e for e in asked if e not in stored]
                    if o[0] != 'ok':
                        if unknown or k not in model.db:
                            return
                        raise Violation('identity-raises', 'get_identity over stored sources raised %s' % o[1])
                    ident, stale = o[1]
                    want = {}
                    want_stale = set()
                    for e in asked:
                        if e in unknown:
                            continue
                        if model.fresh(k, e, now, check):
                            for a, v in stored[e][1]['ava'].items():
                                want.setdefault(a, set()).update(v)
                        else:
                            want_stale.add(e)
                    got = dict((a, set(v)) for a, v in ident.items())
                    if got != want:
                        raise Violation('identity-wrong', 'identity %r, expected union of fresh sources %r (asked %r, now=%d, stored %r)'
                                        % (ident, dict((a, sorted(v)) for a, v in want.items()), asked, now,
                                           dict((e, stored[e][0]) for e in stored)))
                    if set(stale) - set(unknown) != want_stale:
                        raise Violation('stale-wrong', 'stale sources %r, expected %r' % (sorted(stale), sorted(want_stale)))
                if name == 'get_identity':
                    every('get_identity', lambda c, p: _plain(c.get_identity(_nid(ni), ents, check)), judge)
                else:
                    every('pop_get_identity', lambda c, p: _plain(p.get_identity(_nid(ni), ents, check)), judge)
                continue
            if name == 'active':
                _, ni, si = op
                k = _key(ni); src = SOURCES[si]

                def judge(o, k=k, src=src):
                    if o[0] != 'ok':
                        raise Violation('active-raises', 'active raised %s' % o[1])
                    known = k in model.db and src in model.db[k]
                    want = bool(known and model.fresh(k, src, now, True))
                    if bool(o[1]) != want:
                        raise Violation('active-wrong', 'active=%r expected %r' % (o[1], want))
                every('active', lambda c, p: c.active(_nid(ni), src), judge)
                continue
            if name in ('entities', 'sources'):
                _, ni = op
                k = _key(ni)

                def judge(o, k=k):
                    if k not in model.db:
                        if o[0] == 'ok' and o[1]:
                            raise Violation('entities-foreign', 'entities of an unknown subject: %r' % (o[1],))
                        return
                    if o[0] != 'ok':
                        raise Violation('entities-raises', 'entities raised %s' % o[1])
                    if sorted(o[1]) != sorted(model.db[k].keys()):
                        raise Violation('entities-wrong', 'entities %r expected %r' % (sorted(o[1]), sorted(model.db[k])))
                if name == 'entities':
                    every('entities', lambda c, p: list(c.entities(_nid(ni))), judge)
                else:
                    every('sources', lambda c, p: list(p.sources(_nid(ni))), judge)
                continue
            if name == 'stale':
                _, ni, srcs = op
                k = _key(ni)
                ents = [SOURCES[s] for s in srcs] if srcs else None

                def judge(o, k=k, ents=ents):
                    stored = model.db.get(k, {})
                    if o[0] != 'ok':
                        if k not in model.db:
                            return
                        raise Violation('stale-raises', 'stale_sources_for_person raised %s' % o[1])
                    asked = ents if ents else list(stored.keys())
                    want = sorted(e for e in asked if not (e in stored and model.fresh(k, e, now, True)))
                    if sorted(o[1]) != want:
                        raise Violation('stale-sources-wrong', 'stale %r expected %r' % (sorted(o[1]), want))
                every('stale', lambda c, p: list(p.stale_sources_for_person(_nid(ni), ents)), judge)
                continue
            if name == 'subjects':
                def judge(o):
                    if o[0] != 'ok':
                        raise Violation('subjects-raises', 'subjects raised %s' % o[1])
                    got = sorted(o[1], key=repr)
                    want = sorted(model.db.keys(), key=repr)
                    if got != want:
                        raise Violation('subjects-wrong', 'subjects %r expected %r' % (got, want))
                every('subjects', lambda c, p: [_nid_key(n) for n in c.subjects()], judge)
                continue
            raise ValueError('unknown op %r' % (op,))
    finally:
        if 'file' in caches:
            try:
                caches['file']._db.close()
            except Exception:
                pass
    if len(subjects_touched) >= 2:
        feats.add('two-subjects')
    nontrivial = 'read-after-change' in feats or 'two-subjects' in feats
    label = '+'.join(sorted(feats)) or 'plain'
    return label, nontrivial


# ------------------------------------------------------------------ the expiry instant itself, and the representation of the expiry
REPS = ['int', 'str', 'struct_time']


def _rep(exp, rep):
    import time as _t
    if rep == 'int':
        return exp
    if rep == 'str':
        return _t.strftime('%Y-%m-%dT%H:%M:%SZ', _t.gmtime(exp))
    return _t.gmtime(exp)


def instant_cases():
    out = []
    for backend in ('mem', 'file'):
        for reps in [(r,) for r in REPS] + [(a, b) for a in REPS for b in REPS if a != b]:
            for off in (-1, 0, 1):
                for later in (0, 1, 2):         # the query happens `later` seconds after the store
                    out.append({'backend': backend, 'reps': list(reps), 'off': off, 'later': later})
    # no expiry given (not_on_or_after left at its default 0, what session_info() yields for an assertion without any NotOnOrAfter): whatever that means,
    # every accessor has to read it the same way
    for backend in ('mem', 'file'):
        out.append({'backend': backend, 'reps': ['int'], 'off': 0, 'later': 0, 'zero': True})
    # expiries an hour away on either side, in processes whose local time zone is not UTC (instants are UTC whatever the zone)
    for tz in ('EST5', 'XYZ-3', 'UTC'):
        for reps in [(r,) for r in REPS]:
            for off in (-3600, 3600):
                out.append({'backend': 'mem', 'reps': list(reps), 'off': off, 'later': 0, 'tz': tz})
    return out


def run_instant(case):
    """One subject, one source per expiry representation, all expiring at the same instant T = store time + off; queried at store time + later.
    Away from T the statement decides (expired iff now > T ... strictly before / after T).  At now == T the statement leaves the verdict open, but one source at
    one instant is either expired or not: every accessor and every representation of the same instant must give the same verdict."""
    import os
    from saml2_tophat.cache import Cache
    from saml2_tophat.population import Population
    import time as _time
    old_tz = os.environ.get('TZ')
    if case.get('tz'):
        os.environ['TZ'] = case['tz']
        _time.tzset()
    try:
        return _run_instant(case)
    finally:
        if case.get('tz'):
            if old_tz is None:
                os.environ.pop('TZ', None)
            else:
                os.environ['TZ'] = old_tz
            _time.tzset()


def _run_instant(case):
    import os
    from saml2_tophat.cache import Cache
    from saml2_tophat.population import Population
    clock.install()
    _SUBJ[0] = None
    t0 = BASE
    clock.set_now(t0)
    if case['backend'] == 'mem':
        c = Cache()
    else:
        fn = os.path.join(os.getcwd(), 'cache-instant-%d.db' % os.getpid())
        for ext in ('', '.db', '.dat', '.dir', '.bak'):
            try:
                os.unlink(fn + ext)
            except OSError:
                pass
        c = Cache(fn)
    pop = Population(c)
    T = t0 + case['off']
    try:
        for i, rep in enumerate(case['reps']):
            info = {'ava': {'src%d' % i: ['v%d' % i]}, 'marker': 'm%d' % i, 'name_id': _nid(0)}
            c.set(_nid(0), SOURCES[i], info, 0 if case.get('zero') else _rep(T, rep))
        now = t0 + case['later']
        clock.set_now(now)
        verdicts = {}
        for i, rep in enumerate(case['reps']):
            src = SOURCES[i]
            g = _outcome(lambda: c.get(_nid(0), src, True))
            ident, old = c.get_identity(_nid(0), None, True)
            v = {'get': g[0] == 'ok' and bool(g[1]), 'identity-contributes': ('src%d' % i) in ident, 'identity-not-listed-old': src not in old,
                 'active': bool(c.active(_nid(0), src)), 'not-stale': src not in pop.stale_sources_for_person(_nid(0))}
            if g[0] == 'exc' and g[1] != 'ToOld':
                raise Violation('get-raises', 'get raised %s for a stored source (expiry as %s)' % (g[1], rep))
            unchecked = _outcome(lambda: c.get(_nid(0), src, False))
            if unchecked[0] != 'ok' or not unchecked[1] or unchecked[1].get('marker') != 'm%d' % i:
                raise Violation('get-unchecked-wrong', 'get without expiry checking returned %r (expiry as %s)' % (unchecked, rep))
            verdicts[rep] = v
            if len(set(v.values())) != 1:
                raise Violation('accessors-disagree-at-one-instant', 'expiry %s stored as %s, queried at T%+d: the accessors disagree whether the source is expired: %r (True = treated as fresh)'
                                % ('T', rep, now - T, v))
            fresh = list(v.values())[0]
            if case.get('zero'):
                continue
            if now > T and fresh:
                raise Violation('expired-treated-as-fresh', 'expiry stored as %s passed %d s ago, source treated as fresh' % (rep, now - T))
            if now < T and not fresh:
                raise Violation('fresh-treated-as-expired', 'expiry stored as %s is %d s ahead, source treated as expired' % (rep, T - now))
        if len(set(tuple(sorted(v.items())) for v in verdicts.values())) != 1:
            raise Violation('representations-disagree', 'the same expiry instant stored as %r, queried at T%+d, is judged differently: %r' % (case['reps'], now - T, verdicts))
    finally:
        if case['backend'] == 'file':
            try:
                c._db.close()
            except Exception:
                pass
    return 'T%+d|%s%s' % (now - T, '+'.join(case['reps']), '|TZ=' + case['tz'] if case.get('tz') else ''), True


def _raise(b, m):
    raise Violation(b, m)


def _plain(x):
    """make results comparable across backends: NameID instances -> field tuples."""
    from saml2_tophat.saml import NameID
    if isinstance(x, NameID):
        return ('NameID',) + _nid_key(x)
    if isinstance(x, dict):
        return dict((k, _plain(v)) for k, v in x.items())
    if isinstance(x, (list, tuple)):
        return type(x)(_plain(v) for v in x)
    return x


def _canon(o):
    def c(x):
        if isinstance(x, dict):
            return ('d', tuple(sorted((k, c(v)) for k, v in x.items())))
        if isinstance(x, (list, tuple, set)):
            return ('l', tuple(sorted((c(v) for v in x), key=repr)))
        return x
    return (o[0], c(o[1]))


def op_strategy(npool, nsrc):
    from hypothesis import strategies as st
    ni = st.integers(0, npool - 1)
    si = st.integers(0, nsrc - 1)
    srcs = st.lists(si, max_size=3, unique=True)
    b = st.booleans()
    return st.one_of(
        st.tuples(st.just('set'), ni, si, st.integers(0, len(AVAS) - 1), st.integers(0, len(EXPIRY_OFFSETS) - 1)),
        st.tuples(st.just('add_person'), ni, si, st.integers(0, len(AVAS) - 1), st.integers(0, len(EXPIRY_OFFSETS) - 1)),
        st.tuples(st.just('set'), ni, si, st.integers(0, len(AVAS) - 1), st.integers(0, len(EXPIRY_OFFSETS) - 1)),
        st.tuples(st.just('get'), ni, si, b),
        st.tuples(st.just('get_info_from'), ni, si, b),
        st.tuples(st.just('get_identity'), ni, srcs, b),
        st.tuples(st.just('get_identity'), ni, st.just([]), st.just(True)),
        st.tuples(st.just('pop_get_identity'), ni, srcs, b),
        st.tuples(st.just('reset'), ni, si),
        st.tuples(st.just('delete'), ni),
        st.tuples(st.just('remove_person'), ni),
        st.tuples(st.just('active'), ni, si),
        st.tuples(st.just('entities'), ni),
        st.tuples(st.just('sources'), ni),
        st.tuples(st.just('stale'), ni, srcs),
        st.tuples(st.just('subjects')),
        st.tuples(st.just('advance'), st.sampled_from([2, 100, 102, 200, 1000002])),
        st.tuples(st.just('reopen')),
    ).map(list)


def history_strategy(maxlen):
    from hypothesis import strategies as st
    return st.fixed_dictionaries({'subjects': st.lists(st.integers(0, len(POOL) - 1), min_size=1, max_size=3, unique=True),
                                  'ops': st.lists(op_strategy(3, len(SOURCES)), min_size=1, max_size=maxlen)})


class Sequences(object):
    """all op sequences of length 1..n over the small alphabet (lazy)."""
    def __init__(self, n):
        self.n = n
        al = []
        for ni in (0, 5):
            for si in (0, 1):
                for eo in (1, 2, 3):            # now-1, now+1, now+101
                    al.append(['set', ni, si, si + 2 * (ni == 5), eo])
                al.append(['get', ni, si, True])
                al.append(['reset', ni, si])
            al.append(['get_identity', ni, [], True])
            al.append(['get_identity', ni, [0, 1], False])
            al.append(['delete', ni])
        al.append(['advance', 2])
        al.append(['advance', 102])
        al.append(['subjects'])
        self.alphabet = al

    def __len__(self):
        a = len(self.alphabet)
        return sum(a ** k for k in range(1, self.n + 1))

    def __iter__(self):
        for k in range(1, self.n + 1):
            for seq in itertools.product(self.alphabet, repeat=k):
                yield {'ops': list(seq)}


class Shaped(object):
    """every history of the shape  store, store, read, change, read  over the small alphabet."""
    def __init__(self):
        sets = [['set', ni, si, ai, eo] for ni in (0, 5) for si in (0, 1) for ai in (0, 1, 3) for eo in (1, 2, 3)]
        reads = [['get_identity', ni, [], True] for ni in (0, 5)] + [['get_identity', 0, [0, 1], False]] + \
                [['get', 0, si, chk] for si in (0, 1) for chk in (True, False)]
        changes = [['reset', 0, 0], ['reset', 0, 1], ['delete', 0], ['delete', 5], ['advance', 2], ['advance', 102],
                   ['set', 0, 1, 2, 1], ['set', 0, 0, 2, 3], ['set', 5, 0, 3, 3]]
        self.dims = (sets, sets, reads, changes, reads)

    def __len__(self):
        n = 1
        for d in self.dims:
            n *= len(d)
        return n

    def __iter__(self):
        for seq in itertools.product(*self.dims):
            yield {'ops': [list(o) for o in seq]}


def parts(tier):
    quick = tier != 'thorough'
    return [
        Part('histories', lambda c: run_history(c, ('mem', 'file')),
             strategy=lambda: history_strategy(40 if quick else 80),
             examples=8000 if quick else 200000,
             mandatory=()),
        Part('exhaustive', lambda c: run_history(c, ('mem',)),
             cases=lambda: Sequences(3 if quick else 4), exhaustive=True, distinct_by_construction=True),
        Part('shaped', lambda c: run_history(c, ('mem',)), cases=lambda: Shaped(), exhaustive=True, distinct_by_construction=True),
        Part('expiry-instant', run_instant, cases=instant_cases, exhaustive=True),
    ]
