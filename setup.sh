#!/bin/sh
# Offline setup: verify interpreter deps, exec bits, stand-in self-test.
cd "$(dirname "$0")" || exit 1
chmod +x check tools/bin/* tools/*.py 2>/dev/null
/venv/bin/python -c "import hypothesis" 2>/dev/null || /venv/bin/pip install --no-index --find-links /opt/veriftools/wheels hypothesis || exit 1
mkdir -p evidence replays
# atheris (coverage-guided fuzzing, C11) into a private directory next to the checks
/venv/bin/python -c "import sys; sys.path.insert(0, '.deps'); import atheris" 2>/dev/null || /venv/bin/pip install -q --no-index --find-links /opt/veriftools/wheels --target .deps atheris || exit 1
export PYTHONPATH="/repo/src:$(pwd)" PYTHONDONTWRITEBYTECODE=1
/venv/bin/python -B -W ignore tools/xmlsec/selftest.py || exit 1
echo setup ok
