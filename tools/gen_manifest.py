#!/venv/bin/python
"""Regenerates MANIFEST.json from the table below (one row per built check)."""
import json, os
VERIF = os.path.dirname(os.path.dirname(os.path.abspath(__file__)))
TOOL_NOTE = ('xmlsec1 is not installed in the sandbox; signature/encryption steps run through the strict pure-Python '
             'stand-in tools/xmlsec (DESIGN 2.1), calibrated by tools/xmlsec/selftest.py against third-party vectors in the repository')
ROWS = {
 'C19': dict(level='exploration', design='3/C19',
   technique='property-based testing: model-based operation histories (Hypothesis) + bounded exhaustive sequence enumeration, lock-step in-memory/shelve backends',
   text='Generated and exhaustively enumerated Cache/Population histories under a frozen clock are compared step by step with a reference dict model and between the in-memory and file-backed cache; exploration, not proof.',
   note='Frozen clock via module-global rebinding; reference model is a transcription of the statement; in histories exact-equality instants are not generated; the expiry-instant part queries at the instant itself (int / string / struct_time expiries) and there requires only that all accessors and representations agree.'),
 'C18': dict(level='exploration', design='3/C18',
   technique='property-based testing: model-based IdentDB operation histories (Hypothesis) + bounded exhaustive sequences; generated codec round-trip/injectivity',
   text='Generated and exhaustively enumerated IdentDB histories on dict and shelve stores are checked after every step against a reference map (identifier -> owner, withdrawn set); code/decode round trip and injectivity over arbitrary Unicode fields.',
   note='Identifier texts come from the library RNG (outcomes do not depend on values); raising operations are not violations; one open known finding (user id equal to an issued identifier text) is excluded by matcher.'),
 'C14': dict(level='exploration', design='3/C14',
   technique='property-based testing: generated messages/RelayStates/destinations, round trip through independent stdlib readers (urllib.parse, html.parser, ElementTree, zlib)',
   text='Generated messages and RelayStates are packaged with Redirect, POST, SOAP/PAOS and artifact encoders and read back with independent parsers and with the library decoders; byte identity (Redirect/POST), element identity (SOAP), exact parameter/field sets.',
   note='Destinations are URL-safe by construction; HTML values compared modulo CR/CRLF->LF; artifact endpoint index limited to 0..9.'),
 'C15': dict(level='exploration', design='3/C15',
   technique='property-based testing: generated inputs with single-parameter mutations, stateful op histories + bounded exhaustive sequences, Hypothesis-drawn thread schedules under a settrace baton scheduler; independent RSA verification with cryptography',
   text='Signed redirect URLs are verified independently over the transmitted octets under every candidate certificate; mutated queries must not verify; op histories and line-level thread interleavings of sign/verify by entities with different keys must keep every signature under its requester\'s key.',
   note='Line-granular interleavings of 2-3 threads with bounded switch points; cryptography package as verification oracle; real Saml2Client/Server objects from configurations with encryption key pair variants; EC/Ed25519/DSA certificates must never verify.'),
 'C12': dict(level='exploration', design='3/C12',
   technique='property-based testing: exhaustive enumeration over all schema classes (deterministic full/bare instances) + Hypothesis instance trees; round-trip, byte-stability, independent ElementTree intent oracle, hand-transcribed XSD sequence table, foreign-content metamorphic check',
   text='Every SamlBase class of the schema modules is serialised and parsed back; harness-side projection equality, second serialisation byte-identical, plain ElementTree must see each generated attribute/child under its declared name in sequence order (core classes also against a hand transcription of the published XSD order), injected foreign children/attributes must survive.',
   note='Ground truth for most classes is the generated tables themselves (XSDs are not in the repository); core SAML/DSig/XML-Enc/metadata classes additionally against harness/models/schema_order.py.'),
 'C13': dict(level='exploration', design='3/C13',
   technique='property-based testing: exhaustive single-fault enumeration over all (class, constraint, placement) triples + Hypothesis trees with 0/1 fault, judged by a reference validator written from the statement',
   text='For every class a valid instance must pass validation and every single declared-constraint fault (required attribute, occurrence bound, typed value/enumeration), planted at the root or under parent/grandparent classes, must be rejected; both directions checked.',
   note='Reference validator decides only clearly valid/invalid lexical forms; near-miss spellings (valid value plus prefix/suffix/inner junk) are generated for every checked type; three lenient lexical forms the library accepts are open known findings excluded by exact spelling; maxlen facets are not generated; class-specific verify() rules are honoured by the valid-instance generator.'),
 'C02': dict(level='exploration', design='3/C02',
   technique='exhaustive enumeration of the 192-row option/signature/corruption table + property-based generated identities per row; reference decision predicate (iff oracle)',
   text='Every combination of the three SP signature options, plain/encrypted assertion, what was signed and which signature was corrupted (two ways) is built by the harness and delivered to the SP; acceptance must equal the documented predicate in both directions.',
   note=TOOL_NOTE + '; documents built and signed by the harness templates, frozen clock.'),
 'C06': dict(level='exploration', design='3/C06',
   technique='exhaustive enumeration of the status x sub-status x message x assertion x signing table and the Version table for responses and requests; class-name oracle independent of the library table',
   text='Every top-level/second-level status combination (incl. absent Status, unknown URIs) and every Version spelling is delivered as an otherwise valid signed document; non-Success or non-2.0 must never be accepted, standard sub-codes must raise the documented Status<Code> class, Success/2.0 must be accepted.',
   note=TOOL_NOTE + '; frozen clock.'),
 'C04': dict(level='exploration', design='3/C04',
   technique='enumerated clock grid around every validity bound x allowance x presence subsets x timestamp spellings under a frozen clock + property-based multi-bound combinations; must-reject/must-accept/expiry-equality oracle from the statement',
   text='Bounds are placed -3..+3 s and far around the reject edge and the accept edge for each allowance; acceptance outside a window, rejection of a comfortably valid profile-conformant response, ordering violations, the IssueInstant window and the session expiry handed to the application are judged; instants within 1 s of an edge are run but not judged.',
   note=TOOL_NOTE + '; clock frozen by module-global rebinding after import.'),
 'C05': dict(level='exploration', design='3/C05',
   technique='enumeration of the addressing cross product (pair-covering + strided sample: every 61st row in quick, every third row in thorough) with a reference predicate written from the four clauses of the statement',
   text='Rows over InResponseTo x bearer confirmations (incl. several per assertion) x Destination x AudienceRestrictions x Recipient x allow_unsolicited x conversation info x destination pattern x plain/encrypted x POST/Redirect/Artifact/SOAP x signed/unsigned are rendered and delivered; must-reject rows must be refused, conformant rows accepted, came_from must name the answered request.',
   note=TOOL_NOTE + '; solicitation judged for browser bindings only; frozen clock.'),
 'C07': dict(level='exploration', design='3/C07',
   technique='property-based testing: generated identities x release policies x SP metadata declarations (single answers and sequences on one long-lived IdP), subset oracle against a permissive reference policy model; output read with ElementTree',
   text='Every (attribute, value) the IdP/AA puts into an authentication or attribute response must be in the identity and allowed by the most permissive reading of the documented policy (restrictions by name/regex, entity categories, declared required/optional attributes and values); error responses must carry no attributes.',
   note='Unsigned responses (no tool); reference model harness/models/policy.py; the oracle is a subset test and cannot fire on releasing less.'),
 'C09': dict(level='exploration', design='3/C09',
   technique='property-based testing: generated SP metadata layouts x hostile request variants (sequences on one IdP), oracle = reference model of the metadata the documents were rendered from',
   text='For generated metadata with look-alike endpoint URLs, indexes and bindings, every (binding, destination) Server.response_args derives must be registered for the issuer, service and binding; a supplied consumer URL or index is honoured only if registered, unknown issuers never get a destination.',
   note='Requests built as objects; metadata rendered by harness templates; no tool involved.'),
 'C11': dict(level='exploration', design='3/C11',
   technique='exhaustive ast inventory of XML parsing call sites + enumerated sweep of all public parse entry points x generated hostile-document catalogue under a sys.addaudithook monitor + coverage-guided fuzzing (atheris/libFuzzer, oracle inside the target)',
   text='Every parsing call site in the package must resolve to defusedxml; every discovered entry point (about 2300 schema from_string functions plus SOAP, pack, metadata, binding and signature-checking entry points) is fed entity-declaring, external-reference, re-encoded, truncated and non-XML variants of a document it accepts: entity documents and malformed input must be refused, no file or socket may be touched, no replacement text may surface.',
   note='Audit hook observes CPython-level file/socket access; inventory is syntactic; stand-in tool only needed to build the SP/IdP objects.'),
 'C16': dict(level='exploration', design='3/C16',
   technique='property-based testing: generated federation document sets (inline / file / fake-HTTP remote, nested groups, duplicates, expiry, SAML1-only roles, signed valid/tampered/wrong-key) x all accessors, oracle = reference model of the rendered specs; generated config -> metadata -> store round trip',
   text='Every service helper x binding, certs x descriptor x use, entity categories, attribute requirements, with_descriptor and keys are compared with what the valid, unexpired, correctly signed documents declare (any single defining source for duplicated ids; unknown vs unsupported distinguished); generated SP/IdP configurations must load back to the same endpoints and certificates.',
   note=TOOL_NOTE + '; frozen clock; metadata rendered by harness templates.'),
 'C03': dict(level='exploration', design='3/C03',
   technique='property-based testing: generated federations x issuer / signing key / KeyInfo material / signature level pairings under both settings, several messages per SP instance; oracle = reference model of the metadata',
   text='A message is accepted only if the key that actually signed it is a signing (or use-less) metadata key of the claimed Issuer, or - setting off, no such key in metadata - the embedded certificate is the signer\'s; embedded certificates, RSA key values, other entities\' keys, encryption-only keys and unknown issuers must not authenticate.',
   note=TOOL_NOTE + ' including its KeyInfo-first key search; documents built and signed by the harness; frozen clock.'),
 'C01': dict(level='exploration', design='3/C01',
   technique='property-based testing: Hypothesis mutation scripts (20 tree operators incl. parametrised signature-wrapping constructions) over validly signed documents + enumerated XSW catalogue + enumerated layered-encryption layouts (harness-written ciphertexts holding several nodes / nested EncryptedData), oracle = independent signature-coverage predicate (digests the element itself, no ID lookup / node search) and identity projection',
   text='Whenever an SP with a signature requirement accepts a rearranged signed response, every assertion, subject and attribute value it holds must equal content of an element covered by its own valid enveloped signature (single Reference to its own ID, verifying over present content under the issuer metadata key), and each enabled requirement must be met by such an element of the right kind; rejections are not judged.',
   note=TOOL_NOTE + ' including the first-Signature-in-document-order search that makes wrapping possible; attacks through unmodelled xmlsec features are out of reach.'),
 'C08': dict(level='exploration', design='3/C08',
   technique='property-based testing: generated identities over XML Char x NameID x authn context x session expiry x sign/encrypt/algorithm settings x SP options x bindings, IdP -> SP round trip through independent delivery decoders; round-trip equality + skeleton-invariance (metamorphic) oracle',
   text='For an IdP and SP configured from each other\'s generated metadata every response built with a combination satisfying the SP\'s requirements must be accepted and the SP must read back subject, attributes (mapped names, trimmed values), in-response-to, issuer, authn context and session expiry exactly; the element skeleton must equal that of the same response with benign values.',
   note=TOOL_NOTE + '; frozen clock; one open known finding (SOAP + response signature + encryption) excluded by matcher.'),
 'C17': dict(level='exploration', design='3/C17',
   technique='property-based testing: token non-occurrence + decrypt-with-every-pool-key oracle on IdP output; metamorphic plain-vs-encrypted verdict relation and explicit bad-signature cases (incl. encrypted advice assertions) on the SP; enumerated undecryptable cases',
   text='IdP half: for generated high-entropy identities and every sign/encrypt/advice/PEFIM/self-contained option and SP key-descriptor layout, no token may occur in the emitted bytes and only the private key of the SP\'s first metadata certificate (or of the certificate the caller named) decrypts. SP half: a fault inside the assertion must not be accepted encrypted when the same document is rejected in clear; decrypted advice assertions with bad signatures must be refused; content encrypted for a foreign key yields no identity.',
   note=TOOL_NOTE + ' (3DES/AES-CBC, RSA-1_5/OAEP); frozen clock; SP acceptance of non-self-contained plaintext is not judged.'),
 'C10': dict(level='exploration', design='3/C10',
   technique='property-based testing: generated request type x binding encoding x signing x receiver setting x mutation (field edits, near-miss destinations, IssueInstant edges, wrong type/root, garbled encodings, tree mutation scripts) with Destination and IssueInstant varied independently + enumerated XSW catalogue over signed requests of every type and binding; conjunction oracle evaluated by independent readers on the raw document',
   text='Whenever an IdP or SP hands a request object to the application, the raw document must be of the expected type, carry ID/Version 2.0/IssueInstant within the window, a Destination that is absent or exactly an own endpoint for the service, and - if it carries a signature or the receiver wants signed requests - a valid enveloped signature of the request element under the issuer\'s metadata key; unmodified valid requests must be accepted.',
   note=TOOL_NOTE + '; frozen clock; SOAP-delivered signed third-party requests are not required to be accepted (re-serialisation, see C08 finding).'),
 'C20': dict(level='fault_enumeration', design='3/C20',
   technique='exhaustive fault enumeration: fault mode x tool invocation site x invocation position x {valid, corrupted} document, injected by a wrapper around the real tool subprocess; differential oracle against ground truth of the document',
   text='The entities run the tool as a real subprocess through a wrapper that follows a per-case fault plan (19 modes incl. signals, garbled / look-alike output, missing output, unstartable binary) at 12 sites and 3 positions: corrupted documents must never be accepted, valid ones must be rejected when every verification is faulted, failed decryption yields no identity, faulted signing / encryption raises or returns a document that really is protected.',
   note=TOOL_NOTE + ' run as a real process; faults that print an exact OK line are outside the statement.'),
}
NOT_YET = {}
def main():
    props = [json.loads(l) for l in open(os.path.join(VERIF, 'properties.jsonl'))]
    checks = []
    na = []
    for p in props:
        pid = p['id']
        if pid in ROWS:
            r = ROWS[pid]
            checks.append({
                'property_id': pid,
                'quick_cmd': './check %s --tier quick' % pid,
                'thorough_cmd': './check %s --tier thorough' % pid,
                'evidence_file': 'evidence/%s.json' % pid,
                'replay_cmd_template': './check %s --replay {path}' % pid,
                'engine': 'pbt-runner',
                'level_claimed': {'category': r['level'], 'text': r['text'], 'design_ref': r['design']},
                'level_note': r['note'],
                'technique': r['technique'],
            })
        else:
            na.append({'property_id': pid, 'reason': NOT_YET.get(pid, 'check not built yet in this round (planned in DESIGN.md section 3); not claimed until its quick tier runs clean')})
    m = {
        'version': 1,
        'setup_cmd': './setup.sh',
        'hooks': {'guard': 'TOPHATMONOCLE_PYSAML2_VERIF', 'enable': 'no source hooks: checks import /repo/src afresh in every process (pure Python); clock, tool process and thread schedule are controlled from the harness side',
                  'baseline_off_cmd': 'cd /repo && /venv/bin/python -m pytest -ra -q -p no:cacheprovider --timeout=900 --continue-on-collection-errors',
                  'source_commits': [], 'add_only': True},
        'engines': [{'name': 'pbt-runner', 'path': 'harness/runner.py', 'serves_properties': sorted(ROWS),
                     'kind_free_text': 'Hypothesis-driven generated search + exhaustive enumeration of finite tables, sharded over 16 processes, explicit oracles per property, replay files'}],
        'checks': checks,
        'not_applicable': na,
        'notes': 'All checks: ./check <ID> --tier quick|thorough; VERIF_SEED honoured; exit 0 held / 1 VIOLATION / 2 harness problem. Known findings: KNOWN_FINDINGS.json.',
    }
    if not na:
        del m['not_applicable']
    json.dump(m, open(os.path.join(VERIF, 'MANIFEST.json'), 'w'), indent=1)
    print('checks', len(checks), 'na', len(na))
main()
