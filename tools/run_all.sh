#!/bin/sh
# tools/run_all.sh <tier> <seed...> : runs every check, prints one line per (check, seed)
tier=${1:-quick}; shift
cd "$(dirname "$0")/.." || exit 2
./setup.sh >/dev/null 2>&1
for seed in "${@:-1}"; do
  for i in ${CHECKS:-01 02 03 04 05 06 07 08 09 10 11 12 13 14 15 16 17 18 19 20}; do
    s=$(date +%s)
    VERIF_SEED=$seed ./check C$i --tier $tier > out_C${i}_${seed}.txt 2>&1; rc=$?
    e=$(date +%s)
    echo "C$i seed=$seed tier=$tier rc=$rc $((e-s))s $(grep "^C$i tier" out_C${i}_${seed}.txt | cut -c1-120)"
    grep "^VIOLATION\|^HARNESS" out_C${i}_${seed}.txt | head -5
  done
done
