#!/venv/bin/python
"""Sensitivity protocol (DESIGN 2.8): apply each listed source edit to a scratch copy of /repo/src,
run the quick check against it (VERIF_REPO), expect exit 1.  Usage: tools/sens.py C19 [name ...]
Edits live in sensitivity/<ID>.json: [{"name":..,"file":"src/saml2_tophat/x.py","old":..,"new":..,"count":1}]"""
import sys, os, json, shutil, subprocess, tempfile, time
VERIF = os.path.dirname(os.path.dirname(os.path.abspath(__file__)))
pid = sys.argv[1]
only = sys.argv[2:]
edits = json.load(open(os.path.join(VERIF, 'sensitivity', pid + '.json')))
res = []
for e in edits:
    if only and e['name'] not in only:
        continue
    d = tempfile.mkdtemp(prefix='sens-')
    try:
        shutil.copytree('/repo/src', d + '/src', ignore=shutil.ignore_patterns('__pycache__', '*.pyc'))
        for ed in e.get('edits', [e]):
            p = os.path.join(d, ed['file'])
            s = open(p).read()
            if s.count(ed['old']) < 1:
                print('EDIT DOES NOT APPLY', e['name']); res.append((e['name'], 'noapply')); break
            s = s.replace(ed['old'], ed['new'], ed.get('count', 1))
            open(p, 'w').write(s)
        else:
            env = dict(os.environ, VERIF_REPO=d, VERIF_SENS='1')
            t = time.time()
            r = subprocess.run([os.path.join(VERIF, 'check'), pid] + e.get('args', []), env=env, capture_output=True, text=True)
            lines = [l for l in r.stdout.splitlines() if l.startswith('VIOLATION')]
            tail = r.stderr.strip().splitlines()[-3:]
            print('%-40s exit=%d %5.1fs %s' % (e['name'], r.returncode, time.time() - t, lines[:2] or tail))
            if r.returncode == 1:
                for l in r.stderr.splitlines():
                    if l.startswith('  ['):
                        print('      ', l[:220])
            res.append((e['name'], r.returncode))
    finally:
        shutil.rmtree(d, ignore_errors=True)
print('caught %d / %d' % (sum(1 for _, r in res if r == 1), len(res)))
