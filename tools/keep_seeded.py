#!/venv/bin/python
"""tools/keep_seeded.py <srcdir> <k> <PROPERTY> <slug> <caught|missed-then-caught|missed> "<what I ran / result>"
Copies patch<k>.diff, demo<k>.py, notes<k>.md into seeded/<PROPERTY>-<slug>/ with meta.json."""
import sys, os, shutil, json
VERIF = os.path.dirname(os.path.dirname(os.path.abspath(__file__)))
src, k, pid, slug, status, ran = sys.argv[1:7]
d = os.path.join(VERIF, 'seeded', '%s-%s' % (pid, slug))
os.makedirs(d, exist_ok=True)
shutil.copy(os.path.join(src, 'patch%s.diff' % k), os.path.join(d, 'patch.diff'))
shutil.copy(os.path.join(src, 'demo%s.py' % k), os.path.join(d, 'demo.py'))
notes = open(os.path.join(src, 'notes%s.md' % k)).read()
open(os.path.join(d, 'notes.md'), 'w').write(notes)
json.dump({'property': pid, 'origin': 'independent sub-agent given only the property text and a scratch worktree',
           'needs_to_manifest': notes.strip()[:1500], 'detection': status, 'what_was_run': ran,
           'confirmed': 'demo.py exits 0 on the unchanged tree and 1 with patch.diff applied (tools/seeded.py); sub-agent reported the 315 passing tests unchanged'},
          open(os.path.join(d, 'meta.json'), 'w'), indent=1)
print('kept', d)
