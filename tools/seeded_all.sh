#!/bin/sh
# re-runs every kept seeded change against the current /repo tree (scratch copies; /repo itself is not touched)
# the check that is run is the one of the change's property unless meta.json names another one under "caught_by"
cd "$(dirname "$0")/.." || exit 2
for d in seeded/*/; do
  pid=$(basename "$d" | cut -d- -f1)
  by=$(python3 -c "import json,sys; print(json.load(open(sys.argv[1])).get('caught_by',''))" "$d/meta.json" 2>/dev/null)
  [ -n "$by" ] && pid=$by
  if grep -q '"neutralised"' "$d/meta.json"; then echo "== $d"; echo "   neutralised by a later repair (see meta.json)"; continue; fi
  echo "== $d"
  tools/seeded.py "$d" "$pid" 2>&1 | grep -v "Warning\|^  [a-z'i@_]\|NS_AND\|KNOWN-FINDING" | cut -c1-200 | head -4
done
