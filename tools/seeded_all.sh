#!/bin/sh
# re-runs every kept seeded change against the current /repo tree (scratch copies; /repo itself is not touched)
cd "$(dirname "$0")/.." || exit 2
for d in seeded/*/; do
  pid=$(basename "$d" | cut -d- -f1)
  echo "== $d"
  tools/seeded.py "$d" "$pid" 2>&1 | grep -v "Warning\|^  [a-z'i@_]\|NS_AND\|KNOWN-FINDING" | cut -c1-200 | head -4
done
