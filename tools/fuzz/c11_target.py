#!/venv/bin/python
"""Coverage-guided fuzz target for C11 (atheris / libFuzzer).  bytes -> (entry point selector, document); the semantic oracle
of checks/c11_xml_safety.py runs inside the target: a document that declares an entity must be refused, no file / socket may
be touched, no entity replacement text may surface.  Usage: c11_target.py -runs=N -seed=S <corpus dir> [-artifact_prefix=DIR/]
or  c11_target.py --replay FILE"""
import os, sys
VERIF = os.path.dirname(os.path.dirname(os.path.dirname(os.path.abspath(__file__))))
REPO = os.environ.get('VERIF_REPO', '/repo')
for p in (os.path.join(VERIF, '.deps'), os.path.join(VERIF, 'tools', 'xmlsec'), VERIF, os.path.join(REPO, 'src')):
    if p not in sys.path:
        sys.path.insert(0, p)
import warnings, logging
warnings.simplefilter('ignore')
logging.disable(logging.CRITICAL)
import atheris

with atheris.instrument_imports(include=['saml2_tophat', 'defusedxml']):
    import saml2_tophat
    from saml2_tophat import samlp, saml, md, soap, pack, extension_element_from_string, create_class_from_xml_string
    from saml2_tophat.mdstore import InMemoryMetaData
    from saml2_tophat.attribute_converter import ac_factory

from checks import c11_xml_safety as C


def _mdparse(d):
    m = InMemoryMetaData(ac_factory(), '')
    m.parse(d)
    return dict(m.items()) or None


ENTRIES = [
    ('samlp.response_from_string', lambda d: samlp.response_from_string(d)),
    ('samlp.authn_request_from_string', lambda d: samlp.authn_request_from_string(d)),
    ('saml.assertion_from_string', lambda d: saml.assertion_from_string(d)),
    ('md.entity_descriptor_from_string', lambda d: md.entity_descriptor_from_string(d)),
    ('extension_element_from_string', lambda d: extension_element_from_string(d)),
    ('soap.parse_soap_enveloped_saml_thingy', lambda d: soap.parse_soap_enveloped_saml_thingy(d, ['{%s}LogoutRequest' % samlp.NAMESPACE, '{%s}Response' % samlp.NAMESPACE])),
    ('soap.open_soap_envelope', lambda d: soap.open_soap_envelope(d)),
    ('soap.class_instances_from_soap_enveloped_saml_thingies', lambda d: soap.class_instances_from_soap_enveloped_saml_thingies(d, [samlp, saml])),
    ('pack.parse_soap_enveloped_saml', lambda d: pack.parse_soap_enveloped_saml(d, samlp.LogoutRequest)),
    ('InMemoryMetaData.parse', _mdparse),
]


class OracleFailure(Exception):
    pass


def token_only_declared(doc):
    """True iff every occurrence of the entity replacement token in the document lies inside the DOCTYPE's internal subset, i.e. it can reach the parsed
    result only through entity expansion.  Mutation splices the token into ordinary text as well, and literal text is returned legitimately."""
    tok = C.TOKEN
    for enc in ('utf-8', 'utf-16-le', 'utf-16-be'):
        t = doc.decode(enc, 'ignore')
        if tok not in t:
            continue
        low = t.lower()
        i = low.find('<!doctype')
        j = low.find(']>', i) if i != -1 else -1
        if i == -1 or j == -1:
            return False
        if tok in t[:i] or tok in t[j:]:
            return False
    return True


def one(data):
    if len(data) < 2:
        return
    name, call = ENTRIES[data[0] % len(ENTRIES)]
    doc = data[1:]
    low = doc.lower()
    declares = b'<!entity' in low
    out = C.monitor(lambda: call(doc))
    ev = list(C._events)
    if ev:
        raise OracleFailure('%s: external access %r' % (name, ev[:2]))
    status, val = out
    returned = status == 'ok' and val is not None and val != '' and val != b'' and val != {} and val != []
    # (attribute defaults declared with ATTLIST are an open known finding, C11-dtd-attribute-defaults-applied: not judged here)
    if returned and C.contains_token(val) and (C.contains_token(val, 0, (C.CANARY_TEXT,)) or (token_only_declared(doc) and b'<!attlist' not in low)):
        raise OracleFailure('%s: entity replacement text in the returned object' % name)
    if declares and returned and really_declares(doc):
        raise OracleFailure('%s: accepted a document that declares an entity' % name)


class _Stop(Exception):
    pass


def really_declares(doc):
    """an independent reader (expat with a declaration handler, stopped at the root element) decides whether the bytes `<!ENTITY` are a declaration:
    mutation also puts them inside quoted literals (system identifiers), comments and processing instructions of the prolog, where they declare nothing"""
    from xml.parsers import expat
    seen = []
    p = expat.ParserCreate()
    p.EntityDeclHandler = lambda *a: seen.append(a[0])

    def start(name, attrs):
        raise _Stop()
    p.StartElementHandler = start
    try:
        p.Parse(doc, True)
    except (_Stop, expat.ExpatError, ValueError, LookupError):
        pass
    return bool(seen)


def corpus(dirname):
    os.makedirs(dirname, exist_ok=True)
    C.canary()
    docs = []
    from harness import build
    now = 1700000000
    r, a = build.standard(now)
    resp = build.render(r, [a])
    logout = build.logout_request_xml({'id': 'q1', 'issue_instant': build.ts(now), 'issuer': 'https://sp.verif.example/sp'})
    mdx = build.entity_xml({'entityid': 'https://e.example.org', 'idp': {'keys': [('signing', 1)]}})
    seeds = [(0, resp), (2, build.assertion_xml(a)), (3, mdx), (4, resp), (5, build.soap_envelope(logout)), (6, build.soap_envelope(logout)), (7, build.soap_envelope(logout)),
             (8, build.soap_envelope(logout)), (9, mdx), (1, build.authn_request_xml({'id': 'q2', 'issue_instant': build.ts(now), 'issuer': 'x'}))]
    n = 0
    for sel, doc in seeds:
        for fam, data, kind in C.payloads(doc, 'quick'):
            with open(os.path.join(dirname, 'seed-%03d' % n), 'wb') as f:
                f.write(bytes([sel]) + data)
            n += 1
    return n


def main():
    if len(sys.argv) >= 3 and sys.argv[1] == '--replay':
        with open(sys.argv[2], 'rb') as f:
            data = f.read()
        os.chdir(os.path.dirname(os.path.abspath(sys.argv[2])) or '.')
        try:
            one(data)
        except OracleFailure as e:
            print('ORACLE-FAILURE: %s' % e)
            sys.exit(1)
        print('replay passes')
        sys.exit(0)
    cdir = [a for a in sys.argv[1:] if not a.startswith('-')]
    if cdir:
        n = corpus(cdir[0])
        sys.stderr.write('corpus: %d seed inputs\n' % n)
    atheris.Setup(sys.argv, one)
    atheris.Fuzz()


if __name__ == '__main__':
    main()
