#!/venv/bin/python
"""tools/baseline_tests.py : run the repository's pinned test command (/root/.vp/BASELINE.json) on /repo's working tree and report which of the
308 stable-pass tests do not pass.  Removes the files the suite leaves behind (they make tests/test_33_identifier.py fail on the next run)."""
import json, os, subprocess, sys, tempfile
import xml.etree.ElementTree as ET
b = json.load(open('/root/.vp/BASELINE.json'))
out = tempfile.mktemp(suffix='.junit.xml')
left = ['eptid.bak', 'eptid.dat', 'eptid.dir', 'subject.db.dat', 'subject.db.dir', 'subject.db.bak', 'tests/pki/qwerty.crt', 'tests/pki/qwerty.key']


def clean():
    for f in left:
        try:
            os.unlink(os.path.join('/repo', f))
        except OSError:
            pass


clean()
cmd = b['cmd'].replace('<file>', out)
subprocess.run(cmd, shell=True, stdout=subprocess.DEVNULL, stderr=subprocess.DEVNULL, env=dict(os.environ, TOPHATMONOCLE_PYSAML2_VERIF=''))
passed = set()
for tc in ET.parse(out).getroot().iter('testcase'):
    if not any(c.tag in ('failure', 'error', 'skipped') for c in tc):
        passed.add('%s::%s' % (tc.get('classname'), tc.get('name')))
os.unlink(out)
clean()
missing = [t for t in b['stable_pass'] if t not in passed]
print('stable_pass=%d passing_now=%d missing=%d' % (len(b['stable_pass']), len(passed), len(missing)))
for t in missing[:20]:
    print('  NOT PASSING:', t)
sys.exit(1 if missing else 0)
