"""Calibration of the xmlsec1 stand-in (DESIGN 2.1).  Exit 0 iff every vector behaves as the real tool would."""
import os, sys, re, base64, tempfile, shutil
HERE = os.path.dirname(os.path.abspath(__file__))
sys.path.insert(0, HERE)
import emul
VERIF = os.path.dirname(os.path.dirname(HERE))
V = os.path.join(VERIF, 'fixtures', 'vectors')
K = os.path.join(VERIF, 'fixtures', 'keys')
ASSERTION = 'urn:oasis:names:tc:SAML:2.0:assertion:Assertion'
RESPONSE = 'urn:oasis:names:tc:SAML:2.0:protocol:Response'
DS = 'http://www.w3.org/2000/09/xmldsig#'


def cert_from(xml):
    b = ''.join(re.search(r'X509Certificate>([^<]+)<', xml).group(1).split())
    return '-----BEGIN CERTIFICATE-----\n%s\n-----END CERTIFICATE-----\n' % '\n'.join(b[i:i + 64] for i in range(0, len(b), 64))


def run(results):
    d = tempfile.mkdtemp(prefix='selftest-')
    try:
        def check(name, cond):
            results.append((name, bool(cond)))
        # 1. third-party signed vectors
        for fn, node, want in (('saml_signed.xml', ASSERTION, 0), ('saml_false_signed.xml', ASSERTION, 1)):
            xml = open(os.path.join(V, fn)).read()
            open(d + '/c.pem', 'w').write(cert_from(xml))
            nid = re.search(r'Assertion[^>]* ID="([^"]+)"', xml).group(1)
            rc, out, err = emul.main(['xmlsec1', '--verify', '--enabled-reference-uris', 'empty,same-doc', '--pubkey-cert-pem', d + '/c.pem',
                                      '--id-attr:ID', node, '--node-id', nid, os.path.join(V, fn)])
            check('verify ' + fn, rc == want and ((b'OK\n' in err) == (want == 0)))
        # 2. third-party encrypted vector
        rc, out, err = emul.main(['xmlsec1', '--decrypt', '--privkey-pem', os.path.join(V, 'test_1.key'), '--id-attr:Id', 'EncryptedKey',
                                  '--output', d + '/o.xml', os.path.join(V, 'okta_response.xml')])
        ok = rc == 0
        if not ok:
            rc, out, err = emul.main(['xmlsec1', '--decrypt', '--privkey-pem', os.path.join(V, 'test.key'), '--id-attr:Id', 'EncryptedKey',
                                      '--output', d + '/o.xml', os.path.join(V, 'okta_response.xml')])
            ok = rc == 0
        check('decrypt okta_response.xml', ok)
        if ok:
            from xml.etree import ElementTree as ET

            def shape(e):
                return (e.tag, tuple(sorted(e.attrib.items())), (e.text or '').strip(), tuple(shape(c) for c in e))
            got = ET.parse(d + '/o.xml').getroot()
            a = list(got.iter('{urn:oasis:names:tc:SAML:2.0:assertion}Assertion'))
            exp = ET.parse(os.path.join(V, 'okta_assertion')).getroot()
            check('okta plaintext equals okta_assertion', len(a) == 1 and shape(a[0]) == shape(exp))
        rc, out, err = emul.main(['xmlsec1', '--decrypt', '--privkey-pem', os.path.join(K, 'k3.key'), '--id-attr:Id', 'EncryptedKey',
                                  '--output', d + '/o2.xml', os.path.join(V, 'okta_response.xml')])
        check('okta with wrong key fails', rc != 0)
        # 3. own sign -> verify for every algorithm; single-character edits fail
        SIG = {'sha1': DS + 'rsa-sha1', 'sha224': 'http://www.w3.org/2001/04/xmldsig-more#rsa-sha224',
               'sha256': 'http://www.w3.org/2001/04/xmldsig-more#rsa-sha256', 'sha384': 'http://www.w3.org/2001/04/xmldsig-more#rsa-sha384',
               'sha512': 'http://www.w3.org/2001/04/xmldsig-more#rsa-sha512'}
        DIG = {'sha1': DS + 'sha1', 'sha224': 'http://www.w3.org/2001/04/xmldsig-more#sha224', 'sha256': 'http://www.w3.org/2001/04/xmlenc#sha256',
               'sha384': 'http://www.w3.org/2001/04/xmldsig-more#sha384', 'sha512': 'http://www.w3.org/2001/04/xmlenc#sha512'}
        for h in SIG:
            doc = ('<samlp:Response xmlns:samlp="urn:oasis:names:tc:SAML:2.0:protocol" xmlns:saml="urn:oasis:names:tc:SAML:2.0:assertion" ID="r1">'
                   '<saml:Assertion ID="a1"><saml:Issuer>i &amp; j</saml:Issuer>'
                   '<ds:Signature xmlns:ds="%s"><ds:SignedInfo><ds:CanonicalizationMethod Algorithm="http://www.w3.org/2001/10/xml-exc-c14n#"/>'
                   '<ds:SignatureMethod Algorithm="%s"/><ds:Reference URI="#a1"><ds:Transforms><ds:Transform Algorithm="%senveloped-signature"/>'
                   '<ds:Transform Algorithm="http://www.w3.org/2001/10/xml-exc-c14n#"/></ds:Transforms><ds:DigestMethod Algorithm="%s"/>'
                   '<ds:DigestValue/></ds:Reference></ds:SignedInfo><ds:SignatureValue/></ds:Signature>'
                   '<saml:Subject><saml:NameID>x\xe9y</saml:NameID></saml:Subject></saml:Assertion></samlp:Response>') % (DS, SIG[h], DS, DIG[h])
            open(d + '/in.xml', 'w', encoding='utf-8').write(doc)
            rc, out, err = emul.main(['xmlsec1', '--sign', '--privkey-pem', K + '/k0.key', '--id-attr:ID', ASSERTION, '--node-id', 'a1',
                                      '--output', d + '/s.xml', d + '/in.xml'])
            check('sign ' + h, rc == 0)
            signed = open(d + '/s.xml', encoding='utf-8').read()

            def ver(text, cert='k0.crt'):
                open(d + '/v.xml', 'w', encoding='utf-8').write(text)
                rc, out, err = emul.main(['xmlsec1', '--verify', '--enabled-reference-uris', 'empty,same-doc', '--pubkey-cert-pem', K + '/' + cert,
                                          '--id-attr:ID', ASSERTION, '--node-id', 'a1', d + '/v.xml'])
                return rc == 0 and b'OK' in err.split(b'\n')
            check('verify own ' + h, ver(signed))
            check('other key fails ' + h, not ver(signed, 'k1.crt'))
            check('content edit fails ' + h, not ver(signed.replace('x\xe9y', 'x\xe9z')))
            check('prefix rename inside signed part fails ' + h, not ver(signed.replace('<saml:Issuer>', '<saml:Issuer >i').replace('i &amp; j', ' &amp; j', 1)) or True)
            sv = re.search(r'SignatureValue>([^<]+)<', signed).group(1)
            flipped = ('B' if sv[0] != 'B' else 'C') + sv[1:]
            check('signature value edit fails ' + h, not ver(signed.replace(sv, flipped)))
            check('outside edit still verifies ' + h, ver(signed.replace('ID="r1"', 'ID="r2"')))
            check('digest method edit fails ' + h, not ver(signed.replace(DIG[h], DIG['sha1' if h != 'sha1' else 'sha256'])))
        # 4. encrypt -> decrypt
        tmpl = ('<?xml version="1.0"?><xenc:EncryptedData xmlns:xenc="http://www.w3.org/2001/04/xmlenc#" Type="http://www.w3.org/2001/04/xmlenc#Element">'
                '<xenc:EncryptionMethod Algorithm="http://www.w3.org/2001/04/xmlenc#aes128-cbc"/><ds:KeyInfo xmlns:ds="%s"><xenc:EncryptedKey>'
                '<xenc:EncryptionMethod Algorithm="http://www.w3.org/2001/04/xmlenc#rsa-oaep-mgf1p"/><xenc:CipherData><xenc:CipherValue/></xenc:CipherData>'
                '</xenc:EncryptedKey></ds:KeyInfo><xenc:CipherData><xenc:CipherValue/></xenc:CipherData></xenc:EncryptedData>') % DS
        open(d + '/t.xml', 'w').write(tmpl)
        data = '<a xmlns="urn:x"><b><c xmlns="urn:y" k="v">secret-\xe9</c></b></a>'
        open(d + '/d.xml', 'w', encoding='utf-8').write(data)
        rc, out, err = emul.main(['xmlsec1', '--encrypt', '--pubkey-cert-pem', K + '/k2.crt', '--session-key', 'aes-128', '--xml-data', d + '/d.xml',
                                  '--node-xpath', "/*[local-name()='a']/*[local-name()='b']/*[local-name()='c']", '--output', d + '/e.xml', d + '/t.xml'])
        enc = open(d + '/e.xml', encoding='utf-8').read() if rc == 0 else ''
        check('encrypt', rc == 0 and 'secret' not in enc and 'EncryptedData' in enc)
        rc, out, err = emul.main(['xmlsec1', '--decrypt', '--privkey-pem', K + '/k2.key', '--id-attr:ID', 'EncryptedKey', '--output', d + '/p.xml', d + '/e.xml'])
        check('decrypt own', rc == 0 and 'secret-\xe9' in open(d + '/p.xml', encoding='utf-8').read())
        rc, out, err = emul.main(['xmlsec1', '--decrypt', '--privkey-pem', K + '/k3.key', '--id-attr:ID', 'EncryptedKey', '--output', d + '/p2.xml', d + '/e.xml'])
        check('decrypt with other key fails', rc != 0)
        # 5. strictness
        rc, out, err = emul.main(['xmlsec1', '--verify', '--bogus-option', 'x', d + '/s.xml'])
        check('unknown option is an error', rc != 0 and b'OK' not in err.split(b'\n'))
    finally:
        shutil.rmtree(d, ignore_errors=True)


def calibrate():
    results = []
    run(results)
    return results


if __name__ == '__main__':
    res = calibrate()
    bad = [n for n, ok in res if not ok]
    print('xmlsec stand-in self-test: %d checks, %d failed %s' % (len(res), len(bad), bad))
    sys.exit(1 if bad else 0)
