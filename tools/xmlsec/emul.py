"""xmlsec1 command-line emulator (spike).  Subset used by pysaml2.

Models (from xmlsec1 1.2.x sources, apps/xmlsec.c + src/xmldsig.c + src/xmlenc.c):
 * --id-attr:NAME [NS:]NODE  registers attribute NAME as ID on elements named NODE (children first,
   duplicate value => error)
 * --node-id ID  start node = element carrying registered ID; else document root
 * the Signature / EncryptedData operated on is xmlSecFindNode(start,...): start itself, its
   descendants in document order, then start's following siblings (and their descendants)
 * verification: strict Signature layout, every Reference digest + SignatureValue must verify
 * key search: KeyInfo first (RSAKeyValue if enabled by --enabled-key-data / default all),
   X509Data certificates are untrusted (no --trusted-pem) and never yield a key, then the key
   loaded on the command line.
"""
import sys, os, re, base64, hashlib, io
from xml.dom import Node
import defusedxml.minidom as dminidom
from cryptography import x509
from cryptography.hazmat.primitives import hashes, serialization
from cryptography.hazmat.primitives.asymmetric import padding, rsa
from cryptography.hazmat.primitives.ciphers import Cipher, modes, algorithms
try:
    from cryptography.hazmat.decrepit.ciphers.algorithms import TripleDES
except Exception:  # pragma: no cover
    TripleDES = algorithms.TripleDES
sys.path.insert(0, os.path.dirname(os.path.abspath(__file__)))
import c14n

DS = 'http://www.w3.org/2000/09/xmldsig#'
XENC = 'http://www.w3.org/2001/04/xmlenc#'
EXC = 'http://www.w3.org/2001/10/xml-exc-c14n#'
C14N = 'http://www.w3.org/TR/2001/REC-xml-c14n-20010315'
ENVELOPED = DS + 'enveloped-signature'
DIGESTS = {
    DS + 'sha1': hashes.SHA1, 'http://www.w3.org/2001/04/xmldsig-more#sha224': hashes.SHA224,
    'http://www.w3.org/2001/04/xmlenc#sha256': hashes.SHA256,
    'http://www.w3.org/2001/04/xmldsig-more#sha384': hashes.SHA384,
    'http://www.w3.org/2001/04/xmlenc#sha512': hashes.SHA512,
}
SIGALGS = {
    DS + 'rsa-sha1': hashes.SHA1, 'http://www.w3.org/2001/04/xmldsig-more#rsa-sha224': hashes.SHA224,
    'http://www.w3.org/2001/04/xmldsig-more#rsa-sha256': hashes.SHA256,
    'http://www.w3.org/2001/04/xmldsig-more#rsa-sha384': hashes.SHA384,
    'http://www.w3.org/2001/04/xmldsig-more#rsa-sha512': hashes.SHA512,
}

class XErr(Exception):
    pass

def elems(n):
    return [c for c in n.childNodes if c.nodeType == Node.ELEMENT_NODE]

def is_(e, ns, name):
    return e.nodeType == Node.ELEMENT_NODE and e.namespaceURI == ns and e.localName == name

def text_of(e):
    return ''.join(c.data for c in e.childNodes if c.nodeType in (Node.TEXT_NODE, Node.CDATA_SECTION_NODE))

def set_text(e, s):
    while e.firstChild is not None:
        e.removeChild(e.firstChild)
    e.appendChild(e.ownerDocument.createTextNode(s))

def find_node(start, ns, name):
    """xmlSecFindNode: start, its subtree, then following siblings' subtrees."""
    cur = start
    while cur is not None:
        if is_(cur, ns, name):
            return cur
        if cur.firstChild is not None:
            r = find_node(cur.firstChild, ns, name)
            if r is not None:
                return r
        cur = cur.nextSibling
    return None

def parse(path):
    with open(path, 'rb') as f:
        data = f.read()
    try:
        return dminidom.parseString(data, forbid_dtd=False, forbid_entities=True, forbid_external=True)
    except Exception as e:
        raise XErr('parse error: %r' % (e,))

def register_ids(doc, idattrs):
    table = {}
    def walk(e):
        for c in elems(e):
            walk(c)
        for attr, ns, name in idattrs:
            if e.localName != name:
                continue
            if ns is not None and e.namespaceURI is not None and e.namespaceURI != ns:
                continue
            if not e.hasAttribute(attr):
                continue
            v = e.getAttribute(attr)
            if v in table and table[v] is not e:
                raise XErr('duplicate ID attribute "%s"' % v)
            table[v] = e
    walk(doc.documentElement)
    return table

def ser_text(s):
    return s.replace('&', '&amp;').replace('<', '&lt;').replace('>', '&gt;').replace('\r', '&#13;')

def ser_attr(s):
    return (s.replace('&', '&amp;').replace('<', '&lt;').replace('"', '&quot;')
            .replace('\n', '&#10;').replace('\t', '&#9;').replace('\r', '&#13;'))

def serialize(node, out):
    t = node.nodeType
    if t == Node.ELEMENT_NODE:
        out.append('<' + node.tagName)
        a = node.attributes
        for i in range(a.length):
            at = a.item(i)
            out.append(' %s="%s"' % (at.name, ser_attr(at.value)))
        if node.firstChild is None:
            out.append('/>')
            return
        out.append('>')
        for c in node.childNodes:
            serialize(c, out)
        out.append('</%s>' % node.tagName)
    elif t in (Node.TEXT_NODE, Node.CDATA_SECTION_NODE):
        out.append(ser_text(node.data))
    elif t == Node.COMMENT_NODE:
        out.append('<!--%s-->' % node.data)
    elif t == Node.PROCESSING_INSTRUCTION_NODE:
        out.append('<?%s %s?>' % (node.target, node.data))

def dump(doc):
    out = ['<?xml version="1.0" encoding="UTF-8"?>\n']
    for c in doc.childNodes:
        if c.nodeType == Node.DOCUMENT_TYPE_NODE:
            continue
        serialize(c, out)
        out.append('\n')
    return ''.join(out).encode('utf-8')

def b64wrap(b):
    s = base64.b64encode(b).decode('ascii')
    return '\n'.join(s[i:i + 64] for i in range(0, len(s), 64))

# ---------------------------------------------------------------- dsig
def apply_c14n(alg, node, incl_el, skip):
    if alg in (EXC, EXC + 'WithComments'):
        pl = ()
        if incl_el is not None:
            pl = tuple(incl_el.getAttribute('PrefixList').split())
        return c14n.canonicalize(node, exclusive=True, inclusive_prefixes=pl,
                                 with_comments=alg.endswith('WithComments'), skip=skip)
    if alg in (C14N, C14N + '#WithComments'):
        return c14n.canonicalize(node, exclusive=False, with_comments=alg.endswith('WithComments'), skip=skip)
    raise XErr('unsupported c14n/transform %s' % alg)

def reference_octets(doc, ids, ref, sig, allowed_uris):
    if not ref.hasAttribute('URI'):
        raise XErr('Reference without URI')
    uri = ref.getAttribute('URI')
    if uri == '':
        if 'empty' not in allowed_uris:
            raise XErr('empty URI not enabled')
        target = doc.documentElement
    elif uri.startswith('#') and not uri.startswith('#xpointer') and not uri.startswith('#xmlns'):
        if 'same-doc' not in allowed_uris:
            raise XErr('same-doc URI not enabled')
        target = ids.get(uri[1:])
        if target is None:
            raise XErr('ID %s not found' % uri)
    else:
        raise XErr('unsupported reference URI %r' % uri)
    skip = None
    data = None
    trs = [c for c in elems(ref) if is_(c, DS, 'Transforms')]
    tlist = elems(trs[0]) if trs else []
    for tr in tlist:
        if not is_(tr, DS, 'Transform'):
            raise XErr('bad Transforms child')
        alg = tr.getAttribute('Algorithm')
        if data is not None:
            raise XErr('transform after binary data')
        if alg == ENVELOPED:
            # remove the Signature that is the ancestor of this Transform
            skip = sig
        else:
            incl = None
            for c in elems(tr):
                if c.localName == 'InclusiveNamespaces' and c.namespaceURI == EXC:
                    incl = c
            data = apply_c14n(alg, target, incl, skip)
    if data is None:
        data = c14n.canonicalize(target, exclusive=False, skip=skip)
    return data

def parse_signature(sig):
    ch = elems(sig)
    if len(ch) < 2 or not is_(ch[0], DS, 'SignedInfo') or not is_(ch[1], DS, 'SignatureValue'):
        raise XErr('bad Signature layout')
    ki = None
    rest = ch[2:]
    if rest and is_(rest[0], DS, 'KeyInfo'):
        ki = rest[0]
        rest = rest[1:]
    for o in rest:
        if not is_(o, DS, 'Object'):
            raise XErr('unexpected %s in Signature' % o.tagName)
    si = ch[0]
    sc = elems(si)
    if len(sc) < 3 or not is_(sc[0], DS, 'CanonicalizationMethod') or not is_(sc[1], DS, 'SignatureMethod'):
        raise XErr('bad SignedInfo layout')
    refs = sc[2:]
    for r in refs:
        if not is_(r, DS, 'Reference'):
            raise XErr('unexpected %s in SignedInfo' % r.tagName)
    return si, ch[1], ki, sc[0], sc[1], refs

def ref_parts(ref):
    dm = dv = None
    for c in elems(ref):
        if is_(c, DS, 'DigestMethod'):
            dm = c
        elif is_(c, DS, 'DigestValue'):
            dv = c
        elif is_(c, DS, 'Transforms'):
            pass
        else:
            raise XErr('unexpected %s in Reference' % c.tagName)
    if dm is None or dv is None:
        raise XErr('Reference lacks DigestMethod/DigestValue')
    h = DIGESTS.get(dm.getAttribute('Algorithm'))
    if h is None:
        raise XErr('unsupported digest %s' % dm.getAttribute('Algorithm'))
    return h, dv

def digest(hcls, data):
    d = hashes.Hash(hcls())
    d.update(data)
    return d.finalize()

def key_from_keyinfo(ki, enabled):
    """KeyInfo is searched before the keys manager (xmlSecKeysMngrGetKey)."""
    if ki is None:
        return None
    for c in elems(ki):
        if is_(c, DS, 'KeyValue') and ('key-value' in enabled or 'rsa' in enabled or 'all' in enabled):
            for k in elems(c):
                if is_(k, DS, 'RSAKeyValue'):
                    mod = exp = None
                    for p in elems(k):
                        if is_(p, DS, 'Modulus'):
                            mod = int.from_bytes(base64.b64decode(text_of(p)), 'big')
                        if is_(p, DS, 'Exponent'):
                            exp = int.from_bytes(base64.b64decode(text_of(p)), 'big')
                    if mod and exp:
                        return rsa.RSAPublicNumbers(exp, mod).public_key()
        # X509Data: certificate chain cannot be validated (no trusted certs loaded) -> no key
    return None

def do_verify(opts, files):
    doc = parse(files[0])
    ids = register_ids(doc, opts['idattrs'])
    start = doc.documentElement
    if opts.get('node-id') is not None:
        start = ids.get(opts['node-id'])
        if start is None:
            raise XErr('node with id %r not found' % opts['node-id'])
    sig = find_node(start, DS, 'Signature')
    if sig is None:
        raise XErr('no Signature found')
    si, sv, ki, cm, sm, refs = parse_signature(sig)
    allowed = opts.get('enabled-reference-uris', 'empty,same-doc,local,remote').split(',')
    ok = 0
    for r in refs:
        h, dv = ref_parts(r)
        data = reference_octets(doc, ids, r, sig, allowed)
        try:
            want = base64.b64decode(text_of(dv))
        except Exception:
            want = None
        if want == digest(h, data):
            ok += 1
    hcls = SIGALGS.get(sm.getAttribute('Algorithm'))
    if hcls is None:
        raise XErr('unsupported signature method %s' % sm.getAttribute('Algorithm'))
    enabled = opts.get('enabled-key-data', 'all').split(',')
    key = key_from_keyinfo(ki, enabled) or opts.get('pubkey')
    if key is None:
        raise XErr('no key')
    sidata = apply_c14n(cm.getAttribute('Algorithm'), si, None, None)
    good = False
    try:
        key.verify(base64.b64decode(text_of(sv)), sidata, padding.PKCS1v15(), hcls())
        good = True
    except Exception:
        good = False
    status = 'OK' if (good and ok == len(refs)) else 'FAIL'
    err = '%s\nSignedInfo References (ok/all): %d/%d\nManifests References (ok/all): 0/0\n' % (status, ok, len(refs))
    return (0 if status == 'OK' else 1), b'', err.encode()

def do_sign(opts, files):
    doc = parse(files[0])
    ids = register_ids(doc, opts['idattrs'])
    start = doc.documentElement
    if opts.get('node-id') is not None:
        start = ids.get(opts['node-id'])
        if start is None:
            raise XErr('node with id %r not found' % opts['node-id'])
    sig = find_node(start, DS, 'Signature')
    if sig is None:
        raise XErr('no Signature template found')
    si, sv, ki, cm, sm, refs = parse_signature(sig)
    key = opts.get('privkey')
    if key is None:
        raise XErr('no private key')
    for r in refs:
        h, dv = ref_parts(r)
        data = reference_octets(doc, ids, r, sig, ['empty', 'same-doc'])
        set_text(dv, base64.b64encode(digest(h, data)).decode())
    hcls = SIGALGS.get(sm.getAttribute('Algorithm'))
    if hcls is None:
        raise XErr('unsupported signature method')
    sidata = apply_c14n(cm.getAttribute('Algorithm'), si, None, None)
    set_text(sv, b64wrap(key.sign(sidata, padding.PKCS1v15(), hcls())))
    with open(opts['output'], 'wb') as f:
        f.write(dump(doc))
    return 0, b'', b''

# ---------------------------------------------------------------- xmlenc
BLOCK = {
    XENC + 'tripledes-cbc': (TripleDES, 24, 8),
    XENC + 'aes128-cbc': (algorithms.AES, 16, 16),
    XENC + 'aes192-cbc': (algorithms.AES, 24, 16),
    XENC + 'aes256-cbc': (algorithms.AES, 32, 16),
}
SESSION = {'des-192': 24, 'aes-128': 16, 'aes-192': 24, 'aes-256': 32}

def kt_padding(em):
    alg = em.getAttribute('Algorithm')
    if alg == XENC + 'rsa-1_5':
        return padding.PKCS1v15()
    if alg == XENC + 'rsa-oaep-mgf1p':
        h = hashes.SHA1
        for c in elems(em):
            if is_(c, DS, 'DigestMethod'):
                h = DIGESTS.get(c.getAttribute('Algorithm'))
                if h is None:
                    raise XErr('unsupported oaep digest')
        return padding.OAEP(mgf=padding.MGF1(hashes.SHA1()), algorithm=h(), label=None)
    raise XErr('unsupported key transport %s' % alg)

def enc_parts(ed):
    em = ki = cv = None
    for c in elems(ed):
        if is_(c, XENC, 'EncryptionMethod'):
            em = c
        elif is_(c, DS, 'KeyInfo'):
            ki = c
        elif is_(c, XENC, 'CipherData'):
            for v in elems(c):
                if is_(v, XENC, 'CipherValue'):
                    cv = v
    if em is None or cv is None:
        raise XErr('bad EncryptedData/EncryptedKey layout')
    return em, ki, cv

def xpath_select(doc, xp):
    steps = re.findall(r'/\*\[local-name\(\)=[\'"]([^\'"]+)[\'"]\]', xp)
    if not steps or ''.join('/*[local-name()=\'%s\']' % s for s in steps) != xp.replace('"', "'"):
        raise XErr('unsupported xpath %r' % xp)
    cur = [doc]
    for s in steps:
        nxt = []
        for n in cur:
            nxt.extend(c for c in elems(n) if c.localName == s)
        cur = nxt
    if not cur:
        raise XErr('xpath selected nothing')
    return cur[0]

def do_encrypt(opts, files):
    tmpl = parse(files[0])
    ed = find_node(tmpl.documentElement, XENC, 'EncryptedData')
    if ed is None:
        raise XErr('no EncryptedData template')
    em, ki, cv = enc_parts(ed)
    spec = BLOCK.get(em.getAttribute('Algorithm'))
    if spec is None:
        raise XErr('unsupported block cipher')
    algo, klen, blk = spec
    if SESSION.get(opts.get('session-key')) != klen:
        raise XErr('session key type does not match EncryptionMethod')
    pub = opts.get('pubkey')
    if pub is None:
        raise XErr('no public key')
    data_doc = parse(opts['xml-data'])
    if opts.get('node-xpath'):
        target = xpath_select(data_doc, opts['node-xpath'])
    else:
        target = data_doc.documentElement
    out = []
    serialize(target, out)
    # serialise with in-scope namespace declarations made explicit when missing
    plain = ''.join(out).encode('utf-8')
    plain = _with_inherited_ns(target, plain)
    skey = os.urandom(klen)
    iv = os.urandom(blk)
    padn = blk - (len(plain) % blk)
    padded = plain + os.urandom(padn - 1) + bytes([padn])
    enc = Cipher(algo(skey), modes.CBC(iv)).encryptor()
    ct = iv + enc.update(padded) + enc.finalize()
    set_text(cv, b64wrap(ct))
    ek = find_node(ki, XENC, 'EncryptedKey') if ki is not None else None
    if ek is None:
        raise XErr('template has no EncryptedKey')
    kem, kki, kcv = enc_parts(ek)
    set_text(kcv, b64wrap(pub.encrypt(skey, kt_padding(kem))))
    new = data_doc.importNode(ed, True)
    target.parentNode.replaceChild(new, target)
    with open(opts['output'], 'wb') as f:
        f.write(dump(data_doc))
    return 0, b'', b''

def _with_inherited_ns(target, plain):
    return plain  # libxml2 xmlNodeDump does not add inherited declarations either

def do_decrypt(opts, files):
    doc = parse(files[0])
    ids = register_ids(doc, opts['idattrs'])
    ed = find_node(doc.documentElement, XENC, 'EncryptedData')
    if ed is None:
        raise XErr('no EncryptedData')
    em, ki, cv = enc_parts(ed)
    spec = BLOCK.get(em.getAttribute('Algorithm'))
    if spec is None:
        raise XErr('unsupported block cipher')
    algo, klen, blk = spec
    priv = opts.get('privkey')
    if priv is None:
        raise XErr('no private key')
    ek = None
    if ki is not None:
        ek = find_node(ki.firstChild, XENC, 'EncryptedKey') if ki.firstChild is not None else None
        if ek is None:
            for c in elems(ki):
                if is_(c, DS, 'RetrievalMethod'):
                    u = c.getAttribute('URI')
                    if u.startswith('#'):
                        ek = ids.get(u[1:])
                        if ek is None:
                            # Id attribute on EncryptedKey is registered via --id-attr:Id EncryptedKey only
                            pass
    if ek is None:
        raise XErr('no EncryptedKey')
    kem, kki, kcv = enc_parts(ek)
    try:
        skey = priv.decrypt(base64.b64decode(text_of(kcv)), kt_padding(kem))
    except XErr:
        raise
    except Exception as e:
        raise XErr('key transport decryption failed')
    if len(skey) != klen:
        raise XErr('bad session key size')
    ct = base64.b64decode(text_of(cv))
    if len(ct) < 2 * blk or len(ct) % blk:
        raise XErr('bad ciphertext length')
    dec = Cipher(algo(skey), modes.CBC(ct[:blk])).decryptor()
    pt = dec.update(ct[blk:]) + dec.finalize()
    padn = pt[-1]
    if padn < 1 or padn > blk:
        raise XErr('bad padding')
    pt = pt[:-padn]
    typ = ed.getAttribute('Type')
    if typ not in (XENC + 'Element', XENC + 'Content'):
        with open(opts['output'], 'wb') as f:
            f.write(pt)
        return 0, b'', b''
    # parse fragment in the namespace context of the parent
    parent = ed.parentNode
    scope = c14n.inscope_ns(parent) if parent.nodeType == Node.ELEMENT_NODE else {}
    decls = ''.join(' xmlns%s="%s"' % ((':' + p) if p else '', ser_attr(u)) for p, u in scope.items() if p != 'xml')
    try:
        frag = dminidom.parseString(b'<w' + decls.encode() + b'>' + pt + b'</w>', forbid_dtd=True)
    except Exception as e:
        raise XErr('decrypted data is not well-formed: %r' % (e,))
    for c in list(frag.documentElement.childNodes):
        parent.insertBefore(doc.importNode(c, True), ed)
    parent.removeChild(ed)
    with open(opts['output'], 'wb') as f:
        f.write(dump(doc))
    return 0, b'', b''

# ---------------------------------------------------------------- cli
def _read(path):
    with open(path, 'rb') as f:
        return f.read()


def load_pub(path, kind):
    data = _read(path)
    if kind == 'cert-pem':
        return x509.load_pem_x509_certificate(data).public_key()
    if kind == 'cert-der':
        return x509.load_der_x509_certificate(data).public_key()
    if kind == 'pem':
        return serialization.load_pem_public_key(data)
    raise XErr('unsupported key kind')

def main(argv):
    try:
        return _main(argv)
    except XErr as e:
        return 1, b'', ('Error: %s\n' % e).encode()
    except Exception as e:  # any internal failure is a tool failure, never success
        return 1, b'', ('Error: internal %r\n' % (e,)).encode()

def _main(argv):
    args = list(argv[1:])
    if not args:
        raise XErr('no command')
    cmd = args.pop(0)
    if cmd in ('sign', 'verify', 'encrypt', 'decrypt'):
        cmd = '--' + cmd
    if cmd == '--version':
        return 0, b'xmlsec1 1.2.99 (verif-emulator)\n', b''
    if cmd == '--list-transforms':
        names = ['base64', 'c14n', 'c14n-with-comments', 'exc-c14n', 'exc-c14n-with-comments', 'enveloped-signature',
                 'aes128-cbc', 'aes192-cbc', 'aes256-cbc', 'tripledes-cbc', 'rsa-1_5', 'rsa-oaep-mgf1p',
                 'hmac-sha1', 'hmac-sha224', 'hmac-sha256', 'hmac-sha384', 'hmac-sha512',
                 'rsa-sha1', 'rsa-sha224', 'rsa-sha256', 'rsa-sha384', 'rsa-sha512',
                 'sha1', 'sha224', 'sha256', 'sha384', 'sha512']
        return 0, ('Registered transform klasses:\n' + ','.join('"%s"' % n for n in names) + '\n').encode(), b''
    opts = {'idattrs': []}
    files = []
    while args:
        a = args.pop(0)
        if a.startswith('--id-attr'):
            attr = a.split(':', 1)[1] if ':' in a else 'id'
            spec = args.pop(0)
            ns, _, name = spec.rpartition(':')
            opts['idattrs'].append((attr, ns or None, name))
        elif a in ('--privkey-pem',):
            p = args.pop(0).split(',')[0]
            try:
                opts['privkey'] = serialization.load_pem_private_key(_read(p), None)
            except Exception as e:
                raise XErr('cannot load private key %s' % p)
        elif a in ('--pubkey-cert-pem', '--pubkey-cert-der', '--pubkey-pem'):
            p = args.pop(0)
            try:
                opts['pubkey'] = load_pub(p, a[len('--pubkey-'):])
            except XErr:
                raise
            except Exception as e:
                raise XErr('cannot load public key %s' % p)
        elif a in ('--node-id', '--output', '--enabled-reference-uris', '--enabled-key-data',
                   '--session-key', '--xml-data', '--node-xpath', '--node-name'):
            opts[a[2:]] = args.pop(0)
        elif a.startswith('--'):
            raise XErr('unsupported option %s' % a)
        else:
            files.append(a)
    if not files:
        raise XErr('no input file')
    if cmd == '--verify':
        return do_verify(opts, files)
    if 'output' not in opts:
        raise XErr('no --output')
    if cmd == '--sign':
        return do_sign(opts, files)
    if cmd == '--encrypt':
        return do_encrypt(opts, files)
    if cmd == '--decrypt':
        return do_decrypt(opts, files)
    raise XErr('unknown command %s' % cmd)

if __name__ == '__main__':
    rc, out, err = main(sys.argv)
    sys.stdout.buffer.write(out)
    sys.stderr.buffer.write(err)
    sys.exit(rc)
