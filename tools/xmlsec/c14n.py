"""Exclusive / inclusive C14N 1.0 over xml.dom.minidom (spike)."""
from xml.dom import Node
XMLNS = 'http://www.w3.org/2000/xmlns/'

def _esc_text(s):
    return s.replace('&', '&amp;').replace('<', '&lt;').replace('>', '&gt;').replace('\r', '&#xD;')

def _esc_attr(s):
    return (s.replace('&', '&amp;').replace('<', '&lt;').replace('"', '&quot;')
            .replace('\t', '&#x9;').replace('\n', '&#xA;').replace('\r', '&#xD;'))

def inscope_ns(elem):
    """prefix -> uri in scope at elem (including its own declarations)."""
    chain = []
    n = elem
    while n is not None and n.nodeType == Node.ELEMENT_NODE:
        chain.append(n)
        n = n.parentNode
    ns = {}
    for e in reversed(chain):
        _apply_decls(e, ns)
    return ns

def _apply_decls(e, ns):
    attrs = e.attributes
    for i in range(attrs.length):
        a = attrs.item(i)
        if a.namespaceURI == XMLNS:
            if a.prefix == 'xmlns':
                ns[a.localName] = a.value
            else:  # xmlns="..."
                ns[''] = a.value

def canonicalize(apex, exclusive=True, inclusive_prefixes=(), with_comments=False, skip=None):
    out = []
    parent_scope = inscope_ns(apex.parentNode) if (apex.parentNode is not None and apex.parentNode.nodeType == Node.ELEMENT_NODE) else {}
    _render(apex, dict(parent_scope), {}, exclusive, set(inclusive_prefixes), with_comments, skip, out, apex=True)
    return ''.join(out).encode('utf-8')

def _render(node, scope, rendered, exclusive, incl, with_comments, skip, out, apex=False):
    t = node.nodeType
    if t == Node.TEXT_NODE or t == Node.CDATA_SECTION_NODE:
        out.append(_esc_text(node.data)); return
    if t == Node.COMMENT_NODE:
        if with_comments:
            out.append('<!--%s-->' % node.data)
        return
    if t == Node.PROCESSING_INSTRUCTION_NODE:
        out.append('<?%s%s?>' % (node.target, (' ' + node.data) if node.data else '')); return
    if t != Node.ELEMENT_NODE:
        return
    if skip is not None and node is skip:
        return
    scope = dict(scope)
    _apply_decls(node, scope)
    rendered = dict(rendered)
    attrs = []
    attrs_n = node.attributes
    for i in range(attrs_n.length):
        a = attrs_n.item(i)
        if a.namespaceURI != XMLNS:
            attrs.append(a)
    nsdecls = []
    if exclusive:
        used = set()
        used.add(node.prefix or '')
        for a in attrs:
            if a.prefix:
                used.add(a.prefix)
        for p in incl:
            if p == '#default':
                p = ''
            if p in scope:
                used.add(p)
        cand = used
    else:
        cand = set(scope.keys())
        if apex is False:
            pass
    for p in sorted(cand):
        if p == 'xml':
            continue
        uri = scope.get(p)
        if p == '':
            if not uri:
                if rendered.get(''):
                    nsdecls.append(('', ''))
                    rendered[''] = ''
                continue
        if uri is None:
            continue
        if rendered.get(p) != uri:
            nsdecls.append((p, uri))
            rendered[p] = uri
    out.append('<' + node.tagName)
    for p, uri in nsdecls:
        if p == '':
            out.append(' xmlns="%s"' % _esc_attr(uri))
        else:
            out.append(' xmlns:%s="%s"' % (p, _esc_attr(uri)))
    if not exclusive and apex:
        # inherit xml:* attributes from ancestors (C14N 1.0)
        have = {a.localName for a in attrs if a.namespaceURI == 'http://www.w3.org/XML/1998/namespace'}
        n = node.parentNode
        inherited = {}
        while n is not None and n.nodeType == Node.ELEMENT_NODE:
            an = n.attributes
            for i in range(an.length):
                a = an.item(i)
                if a.namespaceURI == 'http://www.w3.org/XML/1998/namespace' and a.localName not in have and a.localName not in inherited:
                    inherited[a.localName] = a
            n = n.parentNode
        attrs = attrs + list(inherited.values())
    attrs.sort(key=lambda a: (a.namespaceURI or '', a.localName or a.name))
    for a in attrs:
        out.append(' %s="%s"' % (a.name, _esc_attr(a.value)))
    out.append('>')
    for c in node.childNodes:
        _render(c, scope, rendered, exclusive, incl, with_comments, skip, out)
    out.append('</%s>' % node.tagName)
