#!/usr/bin/env python3
"""tools/parts_table.py : markdown table of the parts of every check, from the committed evidence files (quick tier, as last run)."""
import json, os, glob
VERIF = os.path.dirname(os.path.dirname(os.path.abspath(__file__)))
print('| check | parts (evaluations / distinct non-trivial) | enumerated in full | wall s |')
print('|---|---|---|---|')
for p in sorted(glob.glob(os.path.join(VERIF, 'evidence', 'C??.json'))):
    d = json.load(open(p))
    c = d['coverage']
    parts = ', '.join('%s (%d / %d)' % (k, v['evaluations'], v['distinct_nontrivial']) for k, v in c.get('parts', {}).items())
    print('| %s | %s | %s | %s |' % (d['property_id'], parts, ', '.join(c.get('exhaustive_parts') or []) or '-', int(d.get('wall_s', 0))))
