#!/venv/bin/python
"""Run quick checks against seeded changes.  tools/seeded.py <dir-with-patch*.diff> <PROPERTY> [more properties]
Each patch is applied to a scratch copy of /repo (src + tests) and the check runs with VERIF_REPO pointing at it."""
import sys, os, glob, shutil, subprocess, tempfile, time
VERIF = os.path.dirname(os.path.dirname(os.path.abspath(__file__)))
d = sys.argv[1]
props = sys.argv[2:]
tier = os.environ.get('SEEDED_TIER', 'quick')
patches = [os.path.join(d, 'patch.diff')] if os.path.exists(os.path.join(d, 'patch.diff')) else sorted(glob.glob(os.path.join(d, 'patch*.diff')))
for patch in patches:
    tmp = tempfile.mkdtemp(prefix='seeded-')
    try:
        shutil.copytree('/repo/src', tmp + '/src', ignore=shutil.ignore_patterns('__pycache__', '*.pyc'))
        r = subprocess.run(['patch', '-p1', '-s', '-d', tmp, '-i', os.path.abspath(patch)], capture_output=True, text=True)
        if r.returncode != 0:
            print('%s: DOES NOT APPLY: %s' % (patch, (r.stdout + r.stderr)[:300]))
            continue
        demo = os.path.abspath(os.path.join(os.path.dirname(patch), os.path.basename(patch).replace('patch', 'demo').replace('.diff', '.py')))
        if os.path.exists(demo):
            env = dict(os.environ, PYTHONPATH=tmp + '/src')
            r1 = subprocess.run(['/venv/bin/python', '-W', 'ignore', demo], env=env, capture_output=True, text=True, cwd=tempfile.gettempdir())
            env0 = dict(os.environ, PYTHONPATH='/repo/src')
            r0 = subprocess.run(['/venv/bin/python', '-W', 'ignore', demo], env=env0, capture_output=True, text=True, cwd=tempfile.gettempdir())
            print('%s: demo unchanged=%d patched=%d' % (os.path.basename(patch), r0.returncode, r1.returncode))
        for pid in props:
            t = time.time()
            env = dict(os.environ, VERIF_REPO=tmp, VERIF_SENS='1')
            r = subprocess.run([os.path.join(VERIF, 'check'), pid, '--tier', tier], env=env, capture_output=True, text=True)
            v = [l for l in r.stderr.splitlines() if l.startswith('  [')]
            print('   %s exit=%d %.1fs %s' % (pid, r.returncode, time.time() - t, 'CAUGHT' if r.returncode == 1 else ('MISSED' if r.returncode == 0 else 'HARNESS-ERROR')))
            for l in v[:4]:
                print('      ' + l[:260])
            if r.returncode == 2:
                print('      ' + r.stderr.strip()[-600:])
    finally:
        shutil.rmtree(tmp, ignore_errors=True)
